(* C10 — flood closes exactly the short gaps and never loses or overlaps time.
   Property statements only: each theorem is closed by [exact <lemma>] and followed by
   Print Assumptions.  Model: Model/Flood.v; proofs: Proofs/FloodStep.v, Proofs/FloodWalk.v, Proofs/FloodGaps.v, Proofs/FloodFixed.v.

   Vocabulary (Proofs/FloodStep.v): instants and durations are integer microseconds;
     ev_ok e            := 0 <= dur e /\ ts e mod 1000 = 0 /\ dur e mod 1000 = 0
     nonoverlapping l   := consecutive members satisfy  eend a <= ts b
     covers l t         := exists e in l,  ts e <= t < eend e            (half-open)
     covers_label x l t := the same with  data e = x
     adjacent a b l     := exists l1 l2, l = l1 ++ a :: b :: l2
     in_short_gap p l t := exists adjacent a b in l, ts b - eend a <= p /\ eend a <= t < ts b
   Domain of every theorem (flood_domain l): the input, in any order, has non-negative
   durations and lies on the millisecond grid (aw-core's granularity: Event floors every
   timestamp it is given to the millisecond), and after flood's own stable sort by start
   the events do not overlap.  The pulsetime p is any integer number of microseconds (the
   statements do not need p >= 0: below 0 no gap qualifies). *)
From AwVerif Require Import Base.Prelude Model.Flood Proofs.FloodStep Proofs.FloodWalk Proofs.FloodGaps Proofs.FloodFixed.

(* The domain, spelled out. *)
Theorem C10_domain_unfold : forall l,
  flood_domain l <->
  (Forall (fun e => 0 <= dur e /\ ts e mod 1000 = 0 /\ dur e mod 1000 = 0) l /\
   nonoverlapping (sort_by ts l)).
Proof. exact flood_domain_unfold. Qed.
Print Assumptions C10_domain_unfold.

(* Key lemma (DESIGN A.2): one iteration on a well-formed non-overlapping pair keeps the
   right-hand event's end and the left-hand event's start, and leaves the pair well-formed
   and non-overlapping; so every gap the walk computes is a gap of the input, and the two
   negative-gap branches are dead inside the domain. *)
Theorem C10_step_keeps_right_end : forall p c n,
  ev_ok c -> ev_ok n -> eend c <= ts n ->
  let c' := fst (fill_step p c n) in
  let n' := snd (fill_step p c n) in
  eend n' = eend n /\ ts c' = ts c /\ data c' = data c /\ data n' = data n /\
  ev_ok c' /\ ev_ok n' /\ eend c' <= ts n'.
Proof. exact step_keeps_right_end. Qed.
Print Assumptions C10_step_keeps_right_end.

(* Inside the domain an iteration is `continue` or one of the four fill branches: the
   negative-gap merge, the warn-only branch and the trim of small overlaps are dead. *)
Theorem C10_in_domain_only_fill_branches : forall p c n,
  ev_ok c -> ev_ok n -> eend c <= ts n ->
  fill_step p c n =
    let gap := ts n - eend c in
    if (0 <? gap) && (gap <=? p) then
      if dur c >=? dur n then
        if data c =? data n
        then (set_dur c (eend n - ts c), mkEvent (eid n) (eend n) 0 (data n))
        else (set_dur c (ts n - ts c), n)
      else
        if data c =? data n
        then (set_dur c 0, mkEvent (eid n) (ts c) (eend n - ts c) (data n))
        else (c, mkEvent (eid n) (eend c) (eend n - eend c) (data n))
    else (c, n).
Proof. exact fill_step_in_domain. Qed.
Print Assumptions C10_in_domain_only_fill_branches.

(* The property's wording of the domain (pairwise disjoint events with distinct timestamps,
   in any order) implies the domain the theorems use. *)
Theorem C10_domain_from_text : forall l,
  Forall ev_ok l ->
  NoDup (map ts l) ->
  (forall a b, In a l -> In b l -> ts a < ts b -> eend a <= ts b) ->
  flood_domain l.
Proof. exact text_domain_is_domain. Qed.
Print Assumptions C10_domain_from_text.

(* The warned_* flags of the loop never influence the events. *)
Theorem C10_flags_irrelevant : forall p ws wu e1 e2,
  fst (flood_step p ws wu e1 e2) = fst (flood_step p false false e1 e2).
Proof. exact step_flags_irrelevant. Qed.
Print Assumptions C10_flags_irrelevant.

Theorem C10_out_nonoverlapping_positive : forall l p,
  flood_domain l ->
  nonoverlapping (flood l p) /\ Forall (fun e => 0 < dur e) (flood l p).
Proof. exact flood_nonoverlapping_positive. Qed.
Print Assumptions C10_out_nonoverlapping_positive.

(* Every gap of at most the pulsetime is closed. *)
Theorem C10_short_gaps_closed : forall l p t,
  flood_domain l ->
  (exists a b, adjacent a b (sort_by ts l) /\ ts b - eend a <= p /\ eend a <= t < ts b) ->
  covers (flood l p) t.
Proof. exact flood_short_gaps_closed. Qed.
Print Assumptions C10_short_gaps_closed.

(* Every longer gap is intact. *)
Theorem C10_long_gaps_intact : forall l p a b t,
  flood_domain l ->
  adjacent a b (sort_by ts l) -> p < ts b - eend a -> eend a <= t < ts b ->
  ~ covers (flood l p) t.
Proof. exact flood_long_gaps_intact. Qed.
Print Assumptions C10_long_gaps_intact.

(* All time covered by the input is still covered ... *)
Theorem C10_cover_preserved : forall l p t,
  flood_domain l -> covers l t -> covers (flood l p) t.
Proof. exact flood_cover_preserved. Qed.
Print Assumptions C10_cover_preserved.

(* ... and each label covers at least what it covered before. *)
Theorem C10_label_cover_preserved : forall l p x t,
  flood_domain l -> covers_label x l t -> covers_label x (flood l p) t.
Proof. exact flood_label_cover_preserved. Qed.
Print Assumptions C10_label_cover_preserved.

(* Newly covered time lies only inside the short gaps (also label by label). *)
Theorem C10_new_cover_only_in_short_gaps : forall l p t,
  flood_domain l -> covers (flood l p) t ->
  covers l t \/ in_short_gap p (sort_by ts l) t.
Proof. exact flood_new_cover_only_in_short_gaps. Qed.
Print Assumptions C10_new_cover_only_in_short_gaps.

Theorem C10_new_label_cover_only_in_short_gaps : forall l p x t,
  flood_domain l -> covers_label x (flood l p) t ->
  covers_label x l t \/ in_short_gap p (sort_by ts l) t.
Proof. exact flood_new_label_cover_only_in_short_gaps. Qed.
Print Assumptions C10_new_label_cover_only_in_short_gaps.

(* Every output event is one of the input events (same id, same data) with another start
   and/or duration: flood invents no events and relabels nothing. *)
Theorem C10_outputs_are_inputs : forall l p o,
  flood_domain l -> In o (flood l p) ->
  exists e, In e l /\ eid o = eid e /\ data o = data e.
Proof. exact flood_origin. Qed.
Print Assumptions C10_outputs_are_inputs.

(* ---- normal form (Proofs/FloodFixed.v) ----
   gapped p lo l : every gap of l (the first measured from lo) is 0 or longer than p, durations >= 0
   settled p l   : gapped from its own first start, and every duration positive.
   The output of flood is settled for the pulsetime it was called with: neighbours touch or are
   more than p apart (this is "every gap of at most the pulsetime has been closed" said about the
   output list itself rather than about points in time) ... *)
Theorem C10_output_settled : forall l p,
  0 <= p -> flood_domain l -> settled p (flood l p).
Proof. exact flood_settled. Qed.
Print Assumptions C10_output_settled.

(* ... every settled list is returned unchanged (nothing is moved, merged or dropped when there
   is no short gap to close) ... *)
Theorem C10_settled_fixed_point : forall l p,
  0 <= p -> settled p l -> flood l p = l.
Proof. exact flood_fixed_point. Qed.
Print Assumptions C10_settled_fixed_point.

(* ... hence flood is idempotent on its domain. *)
Theorem C10_idempotent : forall l p,
  0 <= p -> flood_domain l -> flood (flood l p) p = flood l p.
Proof. exact flood_idempotent. Qed.
Print Assumptions C10_idempotent.

Example C10_settled_nonvacuous :
  let e i t d x := mkEvent (Some i) t d x in
  settled 2000 [e 0 0 5000 1; e 2 5000 7000 1; e 3 12000 1000 2; e 4 16000 1000 2].
Proof. cbv zeta. split; [cbn [gapped]; unfold eend; cbn [ts dur]; lia|repeat constructor; cbn [dur]; lia]. Qed.

(* The millisecond-grid hypothesis cannot be dropped: Event floors assigned timestamps to the
   millisecond but keeps durations to the microsecond, so with one duration off the grid
   (everything else as the property asks: non-negative, distinct millisecond timestamps,
   non-overlapping, pulsetime >= 0) the output can overlap by up to a millisecond.
   Witness [(0, 1500 µs, a); (2000, 3000 µs, b)], pulsetime 1 s -> [(0, 1500, a); (1000, 4000, b)];
   replayed on the implementation (notes/agents/C10.md). *)
Theorem C10_off_ms_grid_refuted :
  exists l p,
    Forall (fun e => 0 <= dur e /\ ts e mod 1000 = 0) l /\ NoDup (map ts l) /\
    nonoverlapping (sort_by ts l) /\ 0 <= p /\
    ~ nonoverlapping (flood l p).
Proof. exact off_grid_overlap. Qed.
Print Assumptions C10_off_ms_grid_refuted.

(* Non-vacuity: a shuffled five-event input inside the domain on which the walk chains
   three modifications (event 1 is absorbed by event 0 and left as a zero-length marker at
   its own end; the longer event 2 then reaches back to that marker; then event 2 is
   extended forward over a gap equal to the pulsetime up to the differently labelled
   event 3) and leaves the gap of 3000 > 2000 before event 4 intact. *)
Example C10_nonvacuous :
  let e i t d x := mkEvent (Some i) t d x in
  let l := [e 4 16000 1000 2; e 1 4000 1000 1; e 0 0 3000 1; e 3 12000 1000 2; e 2 6000 4000 1] in
  flood_domain l /\
  flood l 2000 = [e 0 0 5000 1; e 2 5000 7000 1; e 3 12000 1000 2; e 4 16000 1000 2].
Proof.
  cbv zeta. split; [|vm_compute; reflexivity].
  split; [repeat constructor; vm_compute; congruence|vm_compute; intuition congruence].
Qed.
