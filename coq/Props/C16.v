(* C16 — grouping, chunking, sorting and filtering conserve events and time.
   Property statements only: each theorem is closed by [exact <lemma>] and followed by
   Print Assumptions.  Model: Model/Group.v; proofs: Proofs/GroupMerge.v, GroupChunk.v,
   GroupSort.v.  Vocabulary (defined in the proof files):
     evec keys e        the vector of `option value` of the keys in e's data (presence and value)
     same_group keys a b   a and b have the same vector
     dedup              keeps the first occurrence of every element, in order
     group_event        None id, ms-floored timestamp of the first member, exact sum of the
                        members' durations, select_keys of the first member's data
     key_prefix key l   the longest prefix of l whose events carry the key
     chunk_ok key c     c has a first sub-event giving its timestamp, its duration is the sum of
                        its sub-events', all sub-events carry key with c's value
     Interleave a b l   l is an order-preserving interleaving of a and b
   Domain notes: merge theorems about groups carry keys <> [] (the code returns its input
   for an empty key list: C16_merge_nokeys); chunk theorems are about key <> "subevents"
   (the model keeps the sub-event list outside the data dict). *)
From AwVerif Require Import Base.Prelude Model.Group
  Proofs.GroupSort Proofs.GroupMerge Proofs.GroupChunk.
From Coq Require Import Permutation Sorted.

(* ------------------------------------------------------------------ merge_events_by_keys *)

(* the loop read recursively: the first event opens a group that takes every later event
   with the same presence/value combination; the rest is merged the same way *)
Theorem C16_merge_unfold : forall keys e t, keys <> [] ->
  merge_events_by_keys (e :: t) keys =
  group_event keys e (filter (same_group keys e) t)
  :: merge_events_by_keys (filter (fun x => negb (same_group keys e x)) t) keys.
Proof. exact merge_cons. Qed.
Print Assumptions C16_merge_unfold.

(* one output per distinct combination of presence and value, in first-occurrence order *)
Theorem C16_merge_one_per_combination : forall keys events, keys <> [] ->
  map (evec keys) (merge_events_by_keys events keys) = dedup vec_eqb (map (evec keys) events).
Proof. exact merge_vectors. Qed.
Print Assumptions C16_merge_one_per_combination.

Theorem C16_merge_distinct : forall keys events, keys <> [] ->
  NoDup (map (evec keys) (merge_events_by_keys events keys)).
Proof. exact merge_distinct. Qed.
Print Assumptions C16_merge_distinct.

Theorem C16_merge_covers : forall keys events e, keys <> [] -> In e events ->
  exists o, In o (merge_events_by_keys events keys) /\ same_group keys e o = true.
Proof. exact merge_covers. Qed.
Print Assumptions C16_merge_covers.

(* each output stands for the group of the first input event with its combination: no id,
   that event's timestamp and selected data, and the exact sum over every member *)
Theorem C16_merge_groups : forall keys events o, keys <> [] ->
  In o (merge_events_by_keys events keys) ->
  exists e, find (fun x => same_group keys x o) events = Some e /\
    gid o = None /\ gts o = floor_ms (gts e) /\ gdata o = select_keys keys (gdata e) /\
    gdur o = sumZ (map gdur (filter (fun x => same_group keys x o) events)).
Proof. exact merge_groups. Qed.
Print Assumptions C16_merge_groups.

(* the output data is exactly the selected keys that the first member has *)
Theorem C16_merge_data : forall keys d k,
  lookup k (select_keys keys d) = if memZ k keys then lookup k d else None.
Proof. exact lookup_select. Qed.
Print Assumptions C16_merge_data.

(* the composite key of the code identifies exactly the presence/value vector *)
Theorem C16_merge_key_is_vector : forall keys d1 d2,
  composite_key keys d1 = composite_key keys d2 <-> kvec keys d1 = kvec keys d2.
Proof. exact ck_eq_iff. Qed.
Print Assumptions C16_merge_key_is_vector.

Theorem C16_merge_total : forall events keys,
  sumZ (map gdur (merge_events_by_keys events keys)) = sumZ (map gdur events).
Proof. exact merge_total. Qed.
Print Assumptions C16_merge_total.

Theorem C16_merge_nokeys : forall events, merge_events_by_keys events [] = events.
Proof. exact merge_nokeys. Qed.
Print Assumptions C16_merge_nokeys.

(* on aw-core's millisecond-aligned timestamps the constructor's flooring is the identity *)
Theorem C16_floor_ms_aligned : forall t, t mod 1000 = 0 -> floor_ms t = t.
Proof. exact floor_ms_aligned. Qed.
Print Assumptions C16_floor_ms_aligned.

(* ------------------------------------------------------------------ chunk_events_by_key *)

(* on the longest key-bearing prefix: the sub-events concatenate back to it, and every
   chunk is a run sharing the key's value whose duration is the sum and whose timestamp
   is its first sub-event's (runs are not claimed maximal) *)
Theorem C16_chunk_partition : forall events key pulse,
  concat (map csub (chunk_events_by_key events key pulse)) = key_prefix key events /\
  Forall (chunk_ok key) (chunk_events_by_key events key pulse).
Proof. exact chunk_partition. Qed.
Print Assumptions C16_chunk_partition.

Theorem C16_chunk_total : forall events key pulse,
  sumZ (map cdur (chunk_events_by_key events key pulse)) = sumZ (map gdur (key_prefix key events)).
Proof. exact chunk_total. Qed.
Print Assumptions C16_chunk_total.

Theorem C16_chunk_prefix_spec : forall key l,
  exists rest, l = key_prefix key l ++ rest /\
    Forall (fun e => lookup key (gdata e) <> None) (key_prefix key l) /\
    match rest with [] => True | e :: _ => lookup key (gdata e) = None end.
Proof. exact key_prefix_spec. Qed.
Print Assumptions C16_chunk_prefix_spec.

(* a key-bearing sequence is split completely *)
Theorem C16_chunk_whole : forall key l,
  Forall (fun e => lookup key (gdata e) <> None) l -> key_prefix key l = l.
Proof. exact key_prefix_all. Qed.
Print Assumptions C16_chunk_whole.

(* ------------------------------------------------------------------ sorting *)

Theorem C16_sort_timestamp_perm_sorted : forall l,
  Permutation (sort_by_timestamp l) l /\
  StronglySorted (fun a b => gts a <= gts b) (sort_by_timestamp l).
Proof. exact sort_ts_perm_sorted. Qed.
Print Assumptions C16_sort_timestamp_perm_sorted.

(* stability: the events of any one timestamp come out in input order *)
Theorem C16_sort_timestamp_stable : forall t l,
  filter (fun e => gts e =? t) (sort_by_timestamp l) = filter (fun e => gts e =? t) l.
Proof. exact sort_ts_stable. Qed.
Print Assumptions C16_sort_timestamp_stable.

Theorem C16_sort_duration_perm_sorted : forall l,
  Permutation (sort_by_duration l) l /\
  StronglySorted (fun a b => gdur a >= gdur b) (sort_by_duration l).
Proof. exact sort_dur_perm_sorted. Qed.
Print Assumptions C16_sort_duration_perm_sorted.

Theorem C16_sort_duration_stable : forall d l,
  filter (fun e => gdur e =? d) (sort_by_duration l) = filter (fun e => gdur e =? d) l.
Proof. exact sort_dur_stable. Qed.
Print Assumptions C16_sort_duration_stable.

(* ------------------------------------------------------------------ limit_events *)

Theorem C16_limit_prefix : forall l c,
  (exists rest, l = limit_events l c ++ rest) /\
  Z.of_nat (length (limit_events l c)) =
    (if c <? 0 then Z.max 0 (Z.of_nat (length l) + c) else Z.min c (Z.of_nat (length l))).
Proof. exact limit_prefix_length. Qed.
Print Assumptions C16_limit_prefix.

Theorem C16_limit_firstn : forall l c, 0 <= c -> limit_events l c = firstn (Z.to_nat c) l.
Proof. exact limit_nonneg. Qed.
Print Assumptions C16_limit_firstn.

(* ------------------------------------------------------------------ sum_durations / concat *)

(* exact-sum model only: the float route of the code is outside the model (partial) *)
Theorem C16_sum_concat_partial : forall a b,
  concat_events a b = a ++ b /\
  sum_durations (concat_events a b) = sum_durations a + sum_durations b.
Proof. exact concat_sum. Qed.
Print Assumptions C16_sum_concat_partial.

(* ------------------------------------------------------------------ filter_keyvals / exclude *)

Theorem C16_filter_partition : forall l key vals,
  filter_keyvals l key vals false = filter (kv_predicate key vals) l /\
  filter_keyvals l key vals true = filter (fun e => negb (kv_predicate key vals e)) l /\
  Interleave (filter_keyvals l key vals false) (filter_keyvals l key vals true) l /\
  Forall (fun e => kv_predicate key vals e = true) (filter_keyvals l key vals false) /\
  Forall (fun e => kv_predicate key vals e = false) (filter_keyvals l key vals true).
Proof. exact filter_keyvals_partition. Qed.
Print Assumptions C16_filter_partition.

Theorem C16_filter_predicate : forall key vals e,
  kv_predicate key vals e = true <-> exists v, lookup key (gdata e) = Some v /\ In v vals.
Proof. exact kv_predicate_iff. Qed.
Print Assumptions C16_filter_predicate.

Theorem C16_interleave_length : forall (a b l : list gev),
  Interleave a b l -> length l = (length a + length b)%nat.
Proof. exact interleave_length_gev. Qed.
Print Assumptions C16_interleave_length.

(* ------------------------------------------------------------------ non-vacuity *)

(* keys a=1 b=2 c=3; {a:7}, {b:7} (equal value under a different key), {a:7,c:9}, {} and a
   duplicate: three groups under [a;b], the third event joins the first *)
Example C16_merge_nonvacuous :
  let e t d x := mkG (Some t) (1000 * t) d x in
  merge_events_by_keys
    [e 0 1 [(1, 7)]; e 1 2 [(2, 7)]; e 2 4 [(1, 7); (3, 9)]; e 3 8 []; e 4 16 [(2, 7)]] [1; 2]
  = [mkG None 0 5 [(1, 7)]; mkG None 1000 18 [(2, 7)]; mkG None 3000 8 []].
Proof. vm_compute. reflexivity. Qed.

(* two runs, a non-maximal split (the third event is later than events[-1]'s end plus the
   pulse), and a break at the key-less fifth event *)
Example C16_chunk_nonvacuous :
  let e t d x := mkG None t d x in
  map (fun c => (cts c, cdur c, cval c, length (csub c)))
    (chunk_events_by_key
       [e 0 1 [(1, 7)]; e 1000 2 [(1, 7)]; e 9000 4 [(1, 7)]; e 3000 8 [(1, 8)]; e 4000 16 [(2, 7)];
        e 5000 32 [(1, 7)]] 1 100)
  = [(0, 3, 7, 2%nat); (9000, 4, 7, 1%nat); (3000, 8, 8, 1%nat)].
Proof. vm_compute. reflexivity. Qed.

Example C16_sort_limit_filter_nonvacuous :
  let e i t d x := mkG (Some i) t d x in
  let l := [e 0 5 1 [(1, 7)]; e 1 3 2 [(1, 8)]; e 2 5 2 []; e 3 3 1 [(1, 7)]] in
  map gid (sort_by_timestamp l) = [Some 1; Some 3; Some 0; Some 2] /\
  map gid (sort_by_duration l) = [Some 1; Some 2; Some 0; Some 3] /\
  map gid (limit_events l (-1)) = [Some 0; Some 1; Some 2] /\
  map gid (filter_keyvals l 1 [7] false) = [Some 0; Some 3] /\
  map gid (filter_keyvals l 1 [7] true) = [Some 1; Some 2].
Proof. vm_compute. repeat split; reflexivity. Qed.

(* ------------------------------------------------------------------ round 2: the make-it-hashable step *)

(* Model/GroupHash.v makes the step explicit that turns a value into something a dict key can
   hold (`tuple(val)` for a list in the code): h acts on the value inside the composite key only.
   The grouping of the statement survives exactly the injective steps: an injective h gives the
   result of Model/Group.v for all inputs (so every merge theorem above applies), and an h that
   sends two different values to the same thing returns ONE event for the two-event list holding
   them, carrying the sum of both - one output per distinct combination fails. *)
From AwVerif Require Import Model.GroupHash Proofs.GroupHash.

Theorem C16_merge_hashable_step_injective : forall h, h_injective h -> forall events keys,
  merge_events_by_keys_h h events keys = merge_events_by_keys events keys.
Proof. exact merge_h_injective. Qed.
Print Assumptions C16_merge_hashable_step_injective.

Theorem C16_merge_hashable_step_conflates : forall h a b, a <> b -> h a = h b ->
  let events := [mkG None 0 1 [(0, a)]; mkG None 0 2 [(0, b)]] in
  merge_events_by_keys events [0] = [mkG None 0 1 [(0, a)]; mkG None 0 2 [(0, b)]] /\
  merge_events_by_keys_h h events [0] = [mkG None 0 3 [(0, a)]].
Proof. exact merge_h_conflates. Qed.
Print Assumptions C16_merge_hashable_step_conflates.

Theorem C16_merge_hashable_step_iff : forall h,
  (forall events keys, merge_events_by_keys_h h events keys = merge_events_by_keys events keys)
  <-> h_injective h.
Proof. exact merge_h_correct_iff_injective. Qed.
Print Assumptions C16_merge_hashable_step_iff.

(* label 7 = the list ["x"], label 8 = the string that spells it; a step that sends both to the
   same text: three events, two values, one output *)
Example C16_merge_hashable_step_nonvacuous :
  merge_events_by_keys_h (fun v => if v =? 8 then 7 else v)
    [mkG (Some 1) 0 10 [(1, 7)]; mkG None 1000 20 [(1, 8)]; mkG None 2000 40 [(1, 7)]] [1]
  = [mkG None 0 70 [(1, 7)]] /\
  merge_events_by_keys
    [mkG (Some 1) 0 10 [(1, 7)]; mkG None 1000 20 [(1, 8)]; mkG None 2000 40 [(1, 7)]] [1]
  = [mkG None 0 50 [(1, 7)]; mkG None 1000 20 [(1, 8)]].
Proof. vm_compute. split; reflexivity. Qed.
