(* C13 — events normalise to UTC milliseconds and survive JSON round trips.
   Property statements only: each theorem is closed by [exact <lemma>] and followed by
   Print Assumptions.  Models: Model/PyFloat.v (CPython float conversions, bit-exact),
   Model/IsoTime.v (isoformat / iso8601 subset), Model/EventModel.v (aw_core/models.py).
   Proofs: Proofs/PyFloatFinite.v (exhaustive), Proofs/PyFloatSpec.v (Flocq),
   Proofs/IsoTimeProofs.v, Proofs/EventProofs.v.
   Instants and durations are integer microseconds; floor_ms t = 1000 * (t / 1000);
   y2100 = 4102444800 * 10^6; an aware datetime is (UTC instant, utcoffset). *)
From Coq Require Import ZArith Reals Bool List Ascii.
From Flocq Require Import IEEE754.BinarySingleNaN IEEE754.PrimFloat.
From AwVerif Require Import Base.Prelude Model.PyFloat Model.IsoTime Model.EventModel
  Proofs.PyFloatFinite Proofs.PyFloatSpec Proofs.IsoTimeProofs Proofs.EventProofs.
Open Scope Z_scope.
Set Printing Width 100000.

(* int(us / 1000) computed with float division is us // 1000, for every microsecond field.
   Proved through Flocq here; proved a second time, axiom-free, by exhaustive kernel
   evaluation over the 10^6 values: Proofs/PyFloatExhaustive.int_div_1000_exhaustive (built
   with this file on every run; not imported here because coqchk has no vm). *)
Theorem C13_int_div_1000 : forall us, 0 <= us < 1000000 ->
  bind (fdiv_int_int us 1000) int_of_float = Ok (us / 1000).
Proof. exact int_div_1000_exact. Qed.
Print Assumptions C13_int_div_1000.

(* models.py: int(ts.microsecond / 1000) * 1000 *)
Theorem C13_ms_floor : forall us, 0 <= us < 1000000 ->
  ms_floor_float us = Ok (us - us mod 1000).
Proof. exact ms_floor_float_exact. Qed.
Print Assumptions C13_ms_floor.

(* An aware datetime at UTC instant u with utcoffset off (any whole number of
   milliseconds: every zone of the tz database, every ISO-8601 offset), 1970..2100: the
   event holds the instant floored to the millisecond (as a UTC datetime: the model's
   timestamp is the UTC instant). *)
Theorem C13_normalise : forall u off, 0 <= u <= y2100 -> off mod 1000 = 0 ->
  set_timestamp (TsDt u off) = Ok (floor_ms u).
Proof. exact normalise_dt. Qed.
Print Assumptions C13_normalise.

(* the same for an ISO-8601 string that iso8601.parse_date (covered subset, Model/IsoTime.v)
   reads as (u, off); its offsets are whole minutes, so no assumption on off *)
Theorem C13_normalise_str : forall s u off, parse_iso s = Ok (u, off) ->
  0 <= u <= y2100 -> set_timestamp (TsStr s) = Ok (floor_ms u).
Proof. exact normalise_str_any_offset. Qed.
Print Assumptions C13_normalise_str.

(* whatever the offset, it is the local time that is floored *)
Theorem C13_normalise_general : forall u off,
  timestamp_parse (TsDt u off) = Ok (floor_ms (u + off) - off, off).
Proof. exact timestamp_parse_dt. Qed.
Print Assumptions C13_normalise_general.

(* ... so with a sub-millisecond utcoffset (accepted by datetime.timezone, used by no
   zone) the stored instant is not the millisecond floor of the given instant *)
Theorem C13_normalise_sub_ms_offset_refuted : exists u off,
  0 <= u <= y2100 /\ Z.abs off <= max_off /\
  exists t, set_timestamp (TsDt u off) = Ok t /\ t <> floor_ms u.
Proof. exact normalise_sub_ms_offset_refuted. Qed.
Print Assumptions C13_normalise_sub_ms_offset_refuted.

(* durations: a timedelta is kept, an int is that many seconds *)
Theorem C13_duration_td : forall k, set_duration (DurTd k) = Ok k.
Proof. exact duration_td. Qed.
Print Assumptions C13_duration_td.

Theorem C13_duration_int : forall s, Z.abs s <= 86399999913600 ->
  set_duration (DurInt s) = Ok (s * 1000000).
Proof. exact duration_int. Qed.
Print Assumptions C13_duration_int.

(* timedelta(seconds=x) for a float x within 31/64 us of a whole number k of
   microseconds is exactly k microseconds (no double-rounding surprise) *)
Theorem C13_duration_float_near : forall x k, is_finite (Prim2B x) = true ->
  Z.abs k <= 86399999913600000000 ->
  (Rabs (B2R (Prim2B x) * 1000000 - IZR k) <= 31 / 64)%R ->
  set_duration (DurFloat x) = Ok k.
Proof. exact duration_float_near. Qed.
Print Assumptions C13_duration_float_near.

(* in particular the float nearest to k / 10^6 (what total_seconds() returns) gives k
   back, for |k| < 2^33 * 10^6 us (272 years; DESIGN asked for 2^51) *)
Theorem C13_duration_float : forall k, Z.abs k < 2 ^ 33 * 1000000 ->
  bind (total_seconds_of_us k) (fun f => set_duration (DurFloat f)) = Ok k.
Proof. exact duration_float_roundtrip. Qed.
Print Assumptions C13_duration_float.

(* rebuilding an event from the event itself *)
Theorem C13_rebuild_from_event : forall e, ms_aligned (ts e) -> 0 <= ts e <= y2100 ->
  rebuild e = Ok e.
Proof. exact rebuild_id. Qed.
Print Assumptions C13_rebuild_from_event.

(* JSON round trip: Event applied to json.loads(e.to_json_str()) is e again, id included,
   for millisecond-aligned instants 1970..2100 (what every constructed event holds) and
   |duration| < 2^33 * 10^6 us.  The timestamp text goes through isoformat and the
   iso8601 subset of Model/IsoTime.v; the duration through total_seconds() and
   timedelta(seconds=float). *)
Theorem C13_json_roundtrip : forall e,
  ms_aligned (ts e) -> 0 <= ts e <= y2100 -> Z.abs (dur e) < 2 ^ 33 * 1000000 ->
  json_roundtrip e = Ok e.
Proof. exact json_roundtrip_ok. Qed.
Print Assumptions C13_json_roundtrip.

(* JSON shape: the timestamp is a string YYYY-MM-DDTHH:MM:SS[.fff000]+00:00, the duration a
   finite number (the binary64 nearest to dur / 10^6), id and data are carried over *)
Theorem C13_json_shape : forall e,
  ms_aligned (ts e) -> 0 <= ts e <= y2100 -> Z.abs (dur e) < 2 ^ 33 * 1000000 ->
  exists j, to_json e = Ok j /\ iso_utc_shape (j_ts j) = true /\
            is_finite (Prim2B (j_dur j)) = true /\
            B2R (Prim2B (j_dur j)) = RN (IZR (dur e) / 1000000) /\
            j_id j = eid e /\ j_data j = data e.
Proof. exact json_shape. Qed.
Print Assumptions C13_json_shape.

(* the text isoformat() prints reads back as the same instant *)
Theorem C13_iso_text_roundtrip : forall t, 0 <= t <= y2100 ->
  parse_iso (isoformat_utc t) = Ok (t, 0).
Proof. exact iso_text_roundtrip. Qed.
Print Assumptions C13_iso_text_roundtrip.

(* the duration bound of the JSON round trip is sharp *)
Theorem C13_json_roundtrip_unbounded_refuted : exists e,
  ms_aligned (ts e) /\ 0 <= ts e <= y2100 /\ exists e', json_roundtrip e = Ok e' /\ dur e' <> dur e.
Proof. exact json_roundtrip_unbounded_refuted. Qed.
Print Assumptions C13_json_roundtrip_unbounded_refuted.

(* Non-vacuity: an event given in zone +05:45 with a microsecond field that is not
   millisecond aligned and a float duration next to half a microsecond; its JSON form;
   the round trip. *)
Example C13_nonvacuous :
  mk_event (Some 7) (TsDt 1600000000123999 20700000000) (DurFloat example_float) 3
    = Ok (mkEvent (Some 7) 1600000000123000 1000001 3)
  /\ json_roundtrip (mkEvent (Some 7) 1600000000123000 1000001 3)
    = Ok (mkEvent (Some 7) 1600000000123000 1000001 3).
Proof. split; vm_compute; reflexivity. Qed.
