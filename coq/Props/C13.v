(* C13 — events normalise to UTC milliseconds and survive JSON round trips.
   Property statements only. *)
From Coq Require Import ZArith Bool List PrimFloat.
From AwVerif Require Import Base.Prelude Model.PyFloat Model.IsoTime Model.EventModel
  Proofs.PyFloatFinite.
Open Scope Z_scope.

Theorem C13_int_div_1000 : forall us, 0 <= us < 1000000 ->
  bind (fdiv_int_int us 1000) int_of_float = Ok (us / 1000).
Proof. exact int_div_1000_exact. Qed.
Print Assumptions C13_int_div_1000.
