(* C06 — after a crash the database holds a prefix of what was done, minus a bounded tail.
   Property statements only.  Model: Model/Commit.v (the commit bookkeeping of
   SqliteStorage as it is in /repo now, and peewee's autocommit); proofs:
   Proofs/CommitProofs.v.  A history is a list of API calls [h]; a trace [tr] is its
   micro-step expansion with the clock readings of every step ([map fst tr = expand_all h]);
   a crash point is a cut [firstn k tr] (between any two micro-steps, also inside a call);
   [recover] is what a reopen sees.  SQLite's atomic commit / rollback of the open
   transaction is the model's oracle (header of Model/Commit.v). *)
From AwVerif Require Import Base.Prelude Model.Commit Proofs.CommitProofs.

(* At every crash point the recovered database is the initial one followed by a prefix,
   in issue order, of the elementary writes of the history — exactly those issued so far
   minus the open transaction.  (Shape of the proof: "committed ++ pending = everything
   issued so far" is an invariant of every micro-step.) *)
Theorem C06_prefix : forall lazy c0 t0 h tr k,
  map fst tr = expand_all h ->
  exists p,
    prefix p (writes_of (expand_all h)) /\
    recover (run lazy (init c0 t0) (firstn k tr)) = c0 ++ p /\
    p ++ pending (run lazy (init c0 t0) (firstn k tr)) = twrites (firstn k tr).
Proof. exact crash_prefix. Qed.
Print Assumptions C06_prefix.

(* When no call is in flight every write of the open transaction has been counted by the
   conditional_commit that follows it (deletions included; a bulk insert that failed
   part-way counts all its rows, so the counter can exceed the size of the transaction but
   never fall short of it), and the counter is at most 50: at most 50 writes are at risk. *)
Theorem C06_bounded_loss : forall lazy c0 t0 h tr,
  map fst tr = expand_all h ->
  let s := run lazy (init c0 t0) tr in
  Z.of_nat (length (pending s)) <= n_unc s /\ n_unc s <= 50 /\ (length (pending s) <= 50)%nat /\
  recover s ++ pending s = c0 ++ writes_of (expand_all h).
Proof. exact bounded_loss_quiescent. Qed.
Print Assumptions C06_bounded_loss.

(* A crash inside a call [o] (after any [k] of its micro-steps): at most 50 writes of the
   completed calls are missing; counting the call in flight, at most 50 + its own writes
   (an insert_many of m rows can have 50 + m writes pending just before it counts them). *)
Theorem C06_bounded_loss_in_flight : forall lazy c0 t0 h o tr tro k,
  map fst tr = expand_all h -> map fst tro = expand o ->
  let s := run lazy (init c0 t0) (tr ++ firstn k tro) in
  (length c0 + length (writes_of (expand_all h)) <= length (recover s) + 50)%nat /\
  (length (pending s) <= 50 + length (writes_of (expand o)))%nat.
Proof. exact bounded_loss_any_cut. Qed.
Print Assumptions C06_bounded_loss_in_flight.

(* create_bucket / update_bucket / delete_bucket: from any state, when the call returns
   nothing is pending — its own writes and everything buffered before are durable. *)
Theorem C06_bucket_ops_durable : forall lazy s o tro,
  bucket_op o -> map fst tro = expand o ->
  pending (run lazy s tro) = [] /\
  recover (run lazy s tro) = committed s ++ pending s ++ writes_of (expand o).
Proof. exact bucket_ops_durable. Qed.
Print Assumptions C06_bucket_ops_durable.

(* A single-event or bucket-level call is never split: wherever the crash falls in a
   trace containing the call's script [tro], the recovered database has none of the
   call's writes or all of them (by C06_prefix it is a prefix of the issued writes, so its
   length decides). *)
Theorem C06_single_op_atomic : forall lazy c0 t0 tr1 tro tr2 o k,
  atomic_op o -> map fst tro = expand o ->
  let s := run lazy (init c0 t0) (firstn k (tr1 ++ tro ++ tr2)) in
  (length (recover s) <= length c0 + length (twrites tr1))%nat \/
  (length c0 + length (twrites tr1) + length (writes_of (expand o)) <= length (recover s))%nat.
Proof. exact single_op_atomic. Qed.
Print Assumptions C06_single_op_atomic.

Theorem C06_single_event_one_write : forall o,
  single_event_op o -> exists w, writes_of (expand o) = [w].
Proof. exact single_event_one_write. Qed.
Print Assumptions C06_single_event_one_write.

(* Autocommit store: after every statement (so after every completed call) everything
   issued is durable; a bulk insert is cut into statements of 1..100 rows that together
   insert exactly the given rows, in order. *)
Theorem C06_peewee_completed_durable : forall db0 h k,
  let ms := flat_map pw_expand h in
  pw_run db0 (firstn k ms) = db0 ++ writes_of (firstn k ms) /\
  pw_run db0 ms = db0 ++ writes_of ms /\
  Forall pw_stmt_ok ms.
Proof. exact peewee_durable. Qed.
Print Assumptions C06_peewee_completed_durable.

Theorem C06_peewee_bulk_insert : forall ups rows,
  writes_of (pw_expand (InsertMany ups rows)) = ups ++ rows.
Proof. exact pw_insert_many_writes. Qed.
Print Assumptions C06_peewee_bulk_insert.

(* Non-vacuity.  50 single-event writes (inserts and deletions) stay pending, the 51st
   flushes them all; a bucket operation in between flushes at once; an insert_many of 60
   rows on top of 50 pending writes has 110 pending inside the call and none after. *)
Example C06_nonvacuous :
  let timed ms := map (fun m => (m, mkClk 0 0 0)) ms in
  let ins n := map (fun i => if Nat.even i then InsertOne (Z.of_nat i) else Delete (Z.of_nat i)) (seq 0%nat n) in
  let st h := run true (init [] 0) (timed (expand_all h)) in
  (length (pending (st (ins 50%nat))), length (recover (st (ins 50%nat)))) = (50%nat, 0%nat) /\
  (length (pending (st (ins 51%nat))), length (recover (st (ins 51%nat)))) = (0%nat, 51%nat) /\
  pending (st (ins 7%nat ++ [UpdateBucket 100])) = [] /\
  length (pending (run true (init [] 0)
            (firstn 101%nat (timed (expand_all (ins 50%nat ++ [InsertMany [] (map Z.of_nat (seq 200%nat 60%nat))])))))) = 110%nat /\
  pending (st (ins 50%nat ++ [InsertMany [] (map Z.of_nat (seq 200%nat 60%nat))])) = [].
Proof. vm_compute. repeat split; reflexivity. Qed.

(* A bulk insert that fails part-way is counted in full: 31 rows went through, 32 are
   counted; two of them (64 > 50) flush. *)
Example C06_failed_bulk_is_counted :
  let rows n := map Z.of_nat (seq n 31%nat) in
  let st h := run true (init [] 0) (timed0 (expand_all h)) in
  (length (pending (st [InsertManyFailed [] (rows 0%nat) 1])), n_unc (st [InsertManyFailed [] (rows 0%nat) 1]))
    = (31%nat, 32) /\
  pending (st [InsertManyFailed [] (rows 0%nat) 1; InsertManyFailed [] (rows 100%nat) 1]) = [].
Proof. vm_compute. split; reflexivity. Qed.

(* Sensitivity (scripts the code had before two of its repairs, Proofs/CommitProofs.v
   [pre_4039c3d_delete], [pre_ec39c3d_insert_many_failed]; what tie B reads off the source
   if a repair is reverted).  delete without conditional_commit: 100 deletions leave 100
   writes pending and the counter at 0.  insert_many without try/finally: two bulk inserts
   that raise on their 32nd row leave 62 writes pending, counter 0, nothing committed. *)
Example C06_pre_fix_delete_breaks_bound :
  let s := run true (init [] 0) (timed0 (flat_map pre_4039c3d_delete (map Z.of_nat (seq 0 100)))) in
  (length (pending s), n_unc s, length (recover s)) = (100%nat, 0, 0%nat).
Proof. exact pre_fix_delete_breaks_bound. Qed.

Example C06_pre_fix_failed_bulk_breaks_bound :
  let tr := timed0 (pre_ec39c3d_insert_many_failed [] (map Z.of_nat (seq 0 31)) ++
                    pre_ec39c3d_insert_many_failed [] (map Z.of_nat (seq 100 31))) in
  let s := run true (init [] 0) tr in
  (length (pending s) > 50)%nat /\ n_unc s = 0 /\ recover s = [].
Proof. exact pre_fix_failed_bulk_breaks_bound. Qed.

(* Since a00ceb1 the id-carrying events of an insert_many are counted by the same
   conditional_commit as its new rows (one commit decision per call).  Inside a call with 30
   id-carrying and 25 new events on top of 50 pending writes, after its last statement, 105
   writes are pending and none of the call's is counted yet (the in-flight bound 50 + its own
   writes of C06_bounded_loss_in_flight is reached); when the call returns nothing is pending. *)
Example C06_bulk_with_upserts_in_flight :
  let ins n := map (fun i => InsertOne (Z.of_nat i)) (seq 0%nat n) in
  let o := InsertMany (map Z.of_nat (seq 100%nat 30%nat)) (map Z.of_nat (seq 200%nat 25%nat)) in
  let tr := timed0 (expand_all (ins 50%nat ++ [o])) in
  let mid := run true (init [] 0) (firstn 131%nat tr) in
  (length tr, length (pending mid), n_unc mid, length (writes_of (expand o))) = (132%nat, 105%nat, 50, 55%nat) /\
  pending (run true (init [] 0) tr) = [] /\ length (recover (run true (init [] 0) tr)) = 105%nat.
Proof. vm_compute. repeat split; reflexivity. Qed.
