(* C17 - any query text either parses or is rejected with a query error, and terminates.
   Property statements only: each theorem is closed by [exact <lemma>] and followed by
   Print Assumptions.  Model: Model/PyStr.v, Model/Query.v (query2.py and the call plumbing of
   functions.py, line by line, every raising Python operation explicit); proofs:
   Proofs/QueryScan.v, Proofs/QueryTotal.v, Proofs/QueryClasses.v.
   The theorems hold for every registry [table], every world type, every bucket predicate,
   every built-in body oracle [body] and every digit limit [max_digits]. *)
From Coq Require Import String.
From AwVerif Require Import Base.Prelude Model.PyStr Model.Query
  Proofs.QueryScan Proofs.QueryTotal Proofs.QueryClasses Proofs.QueryExamples.
Open Scope Z_scope.

(* For every text: the run yields a value, or a parse / interpret / function error, or an
   error class that some call of a built-in body itself returned; no IndexError,
   AttributeError, ValueError, KeyError or TypeError arises from scanning, parsing, name
   lookup, the argument-count or the top-level type check, and the fuel never runs out. *)
Theorem C17_total :
  forall table W buckets (body : str -> list arg -> W -> (value + errclass) * W)
         max_digits name starttime endtime text w,
  match fst (run table W buckets body max_digits name starttime endtime text w) with
  | Ok _ => True
  | Err ParseError | Err InterpretError | Err FunctionError => True
  | Err c => exists n args w', fst (body n args w') = inr c
  | OutOfFuel => False
  end.
Proof. exact run_total. Qed.
Print Assumptions C17_total.

(* Parsing alone (any namespace, any token type, any loop): a token tree or a parse error,
   given fuel twice the length of the text - which is what parse_stmt hands out. *)
Theorem C17_parse_total : forall max_digits ns fuel,
  (forall t tok, tok <> [] -> (2 * List.length tok + 1 <= fuel)%nat ->
     match parse_tok max_digits ns fuel t tok with Ok _ | Err ParseError => True | _ => False end) /\
  (forall s, (2 * List.length s + 2 <= fuel)%nat ->
     match parse_args max_digits ns fuel s with Ok _ | Err ParseError => True | _ => False end) /\
  (forall s d, (2 * List.length s + 2 <= fuel)%nat ->
     match parse_dict max_digits ns fuel s d with Ok _ | Err ParseError => True | _ => False end) /\
  (forall s l, (2 * List.length s + 2 <= fuel)%nat ->
     match parse_list max_digits ns fuel s l with Ok _ | Err ParseError => True | _ => False end).
Proof. exact parse_total. Qed.
Print Assumptions C17_parse_total.

(* Progress (what rules out a hang): a token returned by _parse_token has at least one
   character and token + remainder are no longer than the input, so every iteration of the
   argument / entry loops continues on a strictly shorter string; the bracket scanners move
   past at least one character and never beyond the end. *)
Theorem C17_progress_token : forall s t tok rest,
  parse_token s = Ok ((Some t, tok), rest) ->
  tok <> [] /\ (List.length tok + List.length rest <= List.length s)%nat.
Proof. exact parse_token_progress. Qed.
Print Assumptions C17_progress_token.

Theorem C17_progress_scan : forall opn cls dg s i tc sq dq prev i' tc',
  bscan opn cls dg s i tc sq dq prev = (i', tc') ->
  (i <= i' <= i + List.length s)%nat /\ (s <> [] -> (i < i')%nat).
Proof. exact bscan_bound_progress. Qed.
Print Assumptions C17_progress_scan.

(* --- the class of the error ---------------------------------------------------------- *)

(* malformed text -> parse error *)
Theorem C17_class_no_equals : forall max_digits ns line,
  find_char c_eq line = None -> parse_stmt max_digits ns line = Err ParseError.
Proof. exact stmt_no_equals. Qed.
Print Assumptions C17_class_no_equals.

Theorem C17_class_nothing_after_equals : forall max_digits ns line i,
  find_char c_eq line = Some i -> drop (i + 1) line = [] ->
  parse_stmt max_digits ns line = Err ParseError.
Proof. exact stmt_nothing_after_equals. Qed.
Print Assumptions C17_class_nothing_after_equals.

(* a value position (statement value, argument, list entry, dict key or value: each is one
   _parse_token call) that opens a quote which is never closed *)
Theorem C17_class_unterminated_quote : forall v q s,
  strip v = q :: s -> q = c_dq \/ q = c_sq -> ~ In q s -> parse_token v = Err ParseError.
Proof. exact parse_token_unterminated. Qed.
Print Assumptions C17_class_unterminated_quote.

(* a value position whose first character starts no token *)
Theorem C17_class_no_token : forall v c r,
  strip v = c :: r -> starts_token c = false -> parse_token v = Err ParseError.
Proof. exact parse_token_no_token. Qed.
Print Assumptions C17_class_no_token.

(* ... and at the statement level a bad value text makes the statement a parse error, and
   a parse error in the first non-blank statement is the outcome of the whole query *)
Theorem C17_class_value_error : forall max_digits ns line i,
  find_char c_eq line = Some i -> parse_token (drop (i + 1) line) = Err ParseError ->
  parse_stmt max_digits ns line = Err ParseError.
Proof. exact stmt_value_error. Qed.
Print Assumptions C17_class_value_error.

Theorem C17_class_first_statement : forall table W buckets body max_digits name st en q (w : W) c,
  let first := strip (fst (split_on c_semi q)) in
  first <> [] ->
  parse_stmt max_digits (initial_namespace name st en) first = Err c ->
  run table W buckets body max_digits name st en q w = (Err c, w).
Proof. exact run_first_statement_error. Qed.
Print Assumptions C17_class_first_statement.

(* unknown variable or function -> interpret error *)
Theorem C17_class_unknown_variable : forall table W buckets body n c ns (w : W),
  dict_mem ns n = false -> interp table W buckets body (QVariable n c) ns w = (Err InterpretError, w).
Proof. exact unknown_variable. Qed.
Print Assumptions C17_class_unknown_variable.

Theorem C17_class_unknown_function : forall table W buckets body n args ns (w : W),
  find_builtin table n = None ->
  interp table W buckets body (QFunction n args) ns w = (Err InterpretError, w).
Proof. exact unknown_function. Qed.
Print Assumptions C17_class_unknown_function.

(* wrong argument count (with arguments of acceptable types) -> interpret error *)
Theorem C17_class_wrong_count : forall W buckets body b vals (w : W),
  typecheck (b_sig b) (actual_args b vals) = Ok tt ->
  arity_ok (b_sig b) (List.length (actual_args b vals)) = false ->
  call_builtin W buckets body b vals w = (Err InterpretError, w).
Proof. exact wrong_count. Qed.
Print Assumptions C17_class_wrong_count.

(* wrong top-level argument type -> function error (whatever the argument count) *)
Theorem C17_class_wrong_type : forall W buckets body b vals (w : W)
    pre_sig t rest_sig pre_args a rest_args,
  b_sig b = pre_sig ++ PTyped t :: rest_sig ->
  actual_args b vals = pre_args ++ a :: rest_args ->
  List.length pre_sig = List.length pre_args -> typecheck pre_sig pre_args = Ok tt ->
  isinstance a t = false ->
  call_builtin W buckets body b vals w = (Err FunctionError, w).
Proof. exact wrong_type_at. Qed.
Print Assumptions C17_class_wrong_type.

(* unknown bucket -> function error *)
Theorem C17_class_unknown_bucket : forall W buckets body b args bucketname rest (w : W),
  b_body b = BodyBucket -> vals_of_args args = VStr bucketname :: rest ->
  buckets w bucketname = false ->
  run_body W buckets body b args w = (Err FunctionError, w).
Proof. exact unknown_bucket. Qed.
Print Assumptions C17_class_unknown_bucket.

(* --- non-vacuity: concrete runs of the model (registry and body oracle of
   Proofs/QueryExamples.v), one per outcome class, including the inputs that raised
   IndexError / ValueError before the repairs and an error escaping from a body ------------ *)
Example C17_ex_value :
  ex_run "RETURN = echo(1, [2], nop());" = Ok (VList [VInt 1; VList [VInt 2]; VInt 1]).
Proof. vm_compute. reflexivity. Qed.
Example C17_ex_blank_argument : ex_run "RETURN = echo( );" = Ok (VList []).
Proof. vm_compute. reflexivity. Qed.
Example C17_ex_key_without_value : ex_run "RETURN = {""a""};" = Err ParseError.
Proof. vm_compute. reflexivity. Qed.
Example C17_ex_no_equals : ex_run "RETURN" = Err ParseError.
Proof. vm_compute. reflexivity. Qed.
Example C17_ex_no_return : ex_run "x = 1" = Err ParseError.
Proof. vm_compute. reflexivity. Qed.
Example C17_ex_unterminated : ex_run "RETURN = ""abc" = Err ParseError.
Proof. vm_compute. reflexivity. Qed.
Example C17_ex_lenient_unclosed_list : ex_run "RETURN = [1" = Ok (VList []).
Proof. vm_compute. reflexivity. Qed.
Example C17_ex_unknown_variable : ex_run "RETURN = zzz" = Err InterpretError.
Proof. vm_compute. reflexivity. Qed.
Example C17_ex_missing_argument : ex_run "RETURN = limit_events([])" = Err InterpretError.
Proof. vm_compute. reflexivity. Qed.
Example C17_ex_wrong_type : ex_run "RETURN = limit_events(1, 1)" = Err FunctionError.
Proof. vm_compute. reflexivity. Qed.
Example C17_ex_unknown_bucket : ex_run "RETURN = query_bucket(""zz"")" = Err FunctionError.
Proof. vm_compute. reflexivity. Qed.
Example C17_ex_error_from_body : ex_run "RETURN = boom()" = Err KeyError.
Proof. vm_compute. reflexivity. Qed.
(* an integer literal beyond the digit limit is a parse error (max_digits = 3 here) *)
Example C17_ex_int_limit :
  fst (run ex_table Z ex_buckets ex_body 3 (zs "n") (zs "a") (zs "b") (zs "RETURN = 1234") 0)
  = Err ParseError.
Proof. vm_compute. reflexivity. Qed.
