(* C17 - every query text terminates and either yields a value or raises a query error.
   Property statements only.  Model: Model/Query.v; proofs: Proofs/Query*.v. *)
From Coq Require Import String.
From AwVerif Require Import Base.Prelude Model.PyStr Model.Query.

Example C17_placeholder : parse_token (zs "f(1) ,") = Ok ((Some TFunction, zs "f(1)"), zs " ,").
Proof. vm_compute. reflexivity. Qed.
