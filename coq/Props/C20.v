(* C20 — effective configuration = defaults overlaid by the user's file.
   Property statements only: each theorem is closed by [exact <lemma>] and followed by
   Print Assumptions.  Model: Model/Config.v; proofs: Proofs/ConfigProofs.v,
   Proofs/ConfigFirstRun.v, Proofs/ConfigFirstRunSyn.v, Proofs/ConfigIO.v.

   Tables are association lists in dict iteration order; [NoDup (keys b)] / [wf (Tab b)] say
   that no table of the user's document has a key twice (TOML forbids it, a Python dict
   cannot hold it). *)
From AwVerif Require Import Base.Prelude Model.Config
  Proofs.ConfigProofs Proofs.ConfigIO Proofs.ConfigFirstRun Proofs.ConfigFirstRunSyn.

(* The overlay law (DESIGN section 5): for every key, the result holds the user's value where
   the user's file sets the key - two tables being merged by the same law, one level down -
   and the default where it does not; a key only the user has is kept (first match arm
   with [lookup k a = None]). *)
Theorem C20_overlay : forall a b k,
  NoDup (keys b) ->
  lookup k (merge a b) =
  match lookup k b with
  | None => lookup k a
  | Some vb =>
      match lookup k a, vb with
      | Some (Tab ta), Tab tb => Some (Tab (merge ta tb))
      | _, _ => Some vb
      end
  end.
Proof. exact merge_overlay_law. Qed.
Print Assumptions C20_overlay.

(* The same at any depth, along a path of keys.  Where the user's file has a value at path p,
   the effective configuration has that value at p (laid over the default at p when both are
   tables); where the user's file does not set p, it has the default at p. *)
Theorem C20_overlay_path_user : forall p a b vb,
  wf (Tab b) ->
  get p b = Some vb ->
  get p (merge a b) =
  Some match get p a, vb with
       | Some (Tab ta), Tab tb => Tab (merge ta tb)
       | _, _ => vb
       end.
Proof. exact merge_get_set_law. Qed.
Print Assumptions C20_overlay_path_user.

Theorem C20_overlay_path_default : forall p a b,
  wf (Tab b) ->
  unset p b ->
  get p (merge a b) = get p a.
Proof. exact merge_get_unset. Qed.
Print Assumptions C20_overlay_path_default.

(* Keys: the defaults' keys in their order, then the keys only the user has, in the user's
   order (plain dict semantics; by C20_overlay the same holds in every merged sub-table). *)
Theorem C20_merge_keys : forall a b,
  NoDup (keys b) ->
  keys (merge a b) = keys a ++ filter (fun k => negb (mem k a)) (keys b).
Proof. exact merge_keys_law. Qed.
Print Assumptions C20_merge_keys.

(* Skeleton lemma: a table merged with its own skeleton of empty tables is unchanged. *)
Theorem C20_merge_own_skeleton : forall t,
  wf (Tab t) -> merge t (skeleton t) = t.
Proof. exact merge_own_skeleton. Qed.
Print Assumptions C20_merge_own_skeleton.

(* First-run neutrality, for every line-model document whose values are one-line, whose
   inline values hold no array of tables, and in which no [table] header path runs through
   (or equals) an [[array-of-tables]] header path: the commented-out document parses, and
   merging it into the defaults gives the defaults.
   PARTIAL with respect to the property text, which has no restriction on headers; without it
   the statement is false of the current code (C20_first_run_neutral_refuted). *)
Theorem C20_first_run_neutral_partial : forall doc t,
  one_line_values doc ->
  Forall line_aot_free doc ->
  no_header_under_aot doc ->
  parse_lines doc = Ok t ->
  exists s, parse_lines (comment_out doc) = Ok s /\ merge t s = t.
Proof. exact first_run_neutral_syntactic. Qed.
Print Assumptions C20_first_run_neutral_partial.

(* The same from a hypothesis on the parsed document instead of its text (weaker, so this
   theorem is more general): every [table] header names a table that is reached through
   tables only. *)
Theorem C20_first_run_neutral_tables_partial : forall doc t,
  one_line_values doc ->
  parse_lines doc = Ok t ->
  Forall (fun p => tab_path p t) (headers doc) ->
  exists s, parse_lines (comment_out doc) = Ok s /\ merge t s = t.
Proof. exact first_run_neutral. Qed.
Print Assumptions C20_first_run_neutral_tables_partial.

(* ... and through the I/O script: the first load returns the defaults and writes the
   commented-out document; every later load returns the defaults and writes nothing. *)
Theorem C20_first_run_later_loads_partial : forall doc t,
  one_line_values doc ->
  Forall line_aot_free doc ->
  no_header_under_aot doc ->
  parse_lines doc = Ok t ->
  let r1 := load_lines doc None in
  lr_value r1 = Ok t /\
  lr_file r1 = Some (comment_out doc) /\
  forall r, lr_file r = lr_file r1 ->
    let r2 := load_lines doc (lr_file r) in
    lr_value r2 = Ok t /\ lr_file r2 = lr_file r1 /\ writes (lr_trace r2) = [].
Proof. exact first_run_then_later_loads_syntactic. Qed.
Print Assumptions C20_first_run_later_loads_partial.

(* The unrestricted statement is refuted by the faithful model: [[1]] / 2 = .. / [1.3] / 4 = ..
   (the implementation replays it: `[[srv]]\nname = "x"\n[srv.opts]\na = 1\n`). *)
Theorem C20_first_run_neutral_refuted :
  exists doc t s,
    one_line_values doc /\ parse_lines doc = Ok t /\
    parse_lines (comment_out doc) = Ok s /\ merge t s <> t.
Proof. exact first_run_neutral_refuted. Qed.
Print Assumptions C20_first_run_neutral_refuted.

(* load_config_toml never alters an existing user file: for every parser, every commenting
   function, every default text and every file content (valid or not), the file afterwards
   is the file before and the script performs no write. *)
Theorem C20_user_file_untouched :
  forall (text : Type) (parse : text -> res table) (comment : text -> text) default user,
    let r := load_config parse comment default (Some user) in
    lr_file r = Some user /\ writes (lr_trace r) = [].
Proof. exact (@load_existing_untouched). Qed.
Print Assumptions C20_user_file_untouched.

(* With an existing file the returned value is the merge of the two parsed documents. *)
Theorem C20_load_is_merge :
  forall (text : Type) (parse : text -> res table) (comment : text -> text) default user d u,
    parse default = Ok d -> parse user = Ok u ->
    lr_value (load_config parse comment default (Some user)) = Ok (merge d u).
Proof. exact (@load_existing_value). Qed.
Print Assumptions C20_load_is_merge.

(* Without a file: exactly one write, of the commented-out defaults, and the defaults are
   returned; defaults that do not parse raise before any file operation. *)
Theorem C20_first_run_writes_once :
  forall (text : Type) (parse : text -> res table) (comment : text -> text) default d,
    parse default = Ok d ->
    let r := load_config parse comment default None in
    lr_file r = Some (comment default) /\
    writes (lr_trace r) = [EvWrite (comment default)] /\
    lr_value r = Ok d.
Proof. exact (@load_first_run). Qed.
Print Assumptions C20_first_run_writes_once.

Theorem C20_invalid_default_no_io :
  forall (text : Type) (parse : text -> res table) (comment : text -> text) default file c,
    parse default = Err c ->
    let r := load_config parse comment default file in
    lr_file r = file /\ lr_trace r = [] /\ lr_value r = Err c.
Proof. exact (@load_invalid_default). Qed.
Print Assumptions C20_invalid_default_no_io.

(* Non-vacuity.  Defaults and a user file with: a scalar type change (label 11 over 10: true
   over 1), a nested table on both sides, a key only the user has at depth 2, a table over a
   value, a value over a table, an untouched default. *)
Example C20_nonvacuous_overlay :
  let a := [(1, Leaf 10); (2, Tab [(3, Leaf 10); (4, Tab [(5, Leaf 12)])]); (6, Leaf 13); (7, Tab [(1, Leaf 10)])] in
  let b := [(2, Tab [(4, Tab [(8, Leaf 14)]); (3, Leaf 11)]); (1, Leaf 11); (6, Tab [(1, Leaf 10)]); (7, Leaf 15); (9, Leaf 16)] in
  wf (Tab b) /\
  merge a b = [(1, Leaf 11); (2, Tab [(3, Leaf 11); (4, Tab [(5, Leaf 12); (8, Leaf 14)])]);
               (6, Tab [(1, Leaf 10)]); (7, Leaf 15); (9, Leaf 16)] /\
  get [2; 4; 8] b = Some (Leaf 14) /\ unset [2; 4; 5] b.
Proof.
  cbv zeta. split.
  - constructor.
    + cbn. repeat constructor; cbn; intuition discriminate.
    + intros k v H. cbn in H.
      repeat (destruct H as [H|H]; [inversion H; subst; clear H|]); try contradiction; try constructor.
      * cbn. repeat constructor; cbn; intuition discriminate.
      * intros k v H. cbn in H.
        repeat (destruct H as [H|H]; [inversion H; subst; clear H|]); try contradiction; try constructor.
        -- cbn. repeat constructor; cbn; intuition discriminate.
        -- intros k v H. cbn in H.
           repeat (destruct H as [H|H]; [inversion H; subst; clear H|]); try contradiction; constructor.
      * cbn. repeat constructor; cbn; intuition discriminate.
      * intros k v H. cbn in H.
        repeat (destruct H as [H|H]; [inversion H; subst; clear H|]); try contradiction; constructor.
  - vm_compute. repeat split; reflexivity.
Qed.

(* A document with comments, blank lines, nested and dotted headers, out-of-order tables and
   an array of tables meets the hypotheses of first-run neutrality, and its commented-out
   form parses to a non-empty skeleton. *)
Example C20_nonvacuous_first_run :
  let doc := [Comment; KeyVal [1] (Leaf 10); Blank; Header [2]; KeyVal [1] (Leaf 11);
              Header [2; 3; 4]; KeyVal [5] (Leaf 12); ArrayHeader [6]; KeyVal [1] (Leaf 10);
              ArrayHeader [6]; KeyVal [1] (Leaf 13); Header [7]; Header [2; 8]; KeyVal [1; 9] (Leaf 10)] in
  let t := [(1, Leaf 10);
            (2, Tab [(1, Leaf 11); (3, Tab [(4, Tab [(5, Leaf 12)])]); (8, Tab [(1, Tab [(9, Leaf 10)])])]);
            (6, Aot [Tab [(1, Leaf 10)]; Tab [(1, Leaf 13)]]); (7, Tab [])] in
  one_line_values doc /\ Forall line_aot_free doc /\ no_header_under_aot doc /\
  parse_lines doc = Ok t /\
  Forall (fun p => tab_path p t) (headers doc) /\
  parse_lines (comment_out doc) = Ok [(2, Tab [(3, Tab [(4, Tab [])]); (8, Tab [])]); (7, Tab [])].
Proof.
  cbv zeta. split; [repeat constructor|].
  split; [repeat constructor; apply aot_free_leaf|].
  split.
  { intros p q Hp Hq [r Hr]. cbn in Hp, Hq.
    repeat (destruct Hp as [Hp|Hp]; [subst p|]); try contradiction;
    repeat (destruct Hq as [Hq|Hq]; [subst q|]); try contradiction; discriminate. }
  split; [vm_compute; reflexivity|].
  split; [|vm_compute; reflexivity].
  repeat constructor.
Qed.
