(* C09: "... and neither input list nor any input event is modified" (filter_period_intersect),
   and what period_union does to its arguments.  Property statements only; each theorem is
   closed by [exact <lemma>] and followed by Print Assumptions.
   Model: Model/TransformHeap.v (filter_period_intersect_h: sorted() of both arguments, the
   generator's own in-place sorts of those new lists, the sweep interleaved with
   _replace_event_period = deepcopy + two attribute assignments; period_union_h:
   sorted(events1 + events2), the merge loop that appends the caller's own Event objects or
   replaced copies, and the final `event.data = {}` on every merged event).
   Proofs: Proofs/TransformHeapCopy.v, TransformHeapBase.v, TransformHeapIntersect.v,
   TransformHeapTheorems.v.  Tie to the code: harness/theap.py.
   Vocabulary as in Props/C10own.v (framed, list_at, wf, rt). *)
From AwVerif Require Import Base.Prelude Model.MemHeap Model.Timeslot Model.TransformHeap Model.Intersect
  Proofs.MemHeapBase Proofs.MemHeapCopy Proofs.MemHeapFrame
  Proofs.TransformHeapCopy Proofs.TransformHeapBase Proofs.TransformHeapFlood
  Proofs.TransformHeapUnion Proofs.TransformHeapIntersect Proofs.TransformHeapTheorems.
Local Open Scope nat_scope.

(* filter_period_intersect: (a) FRAME and (b) FRESHNESS for every heap and every pair of
   arguments (any aliasing, the same list twice, ill-typed cells): every object that
   existed is exactly as it was; the returned list and its elements are new and reach
   only new objects. *)
Theorem C09_intersect_inputs_not_modified : forall h L1 L2 h' L',
  filter_period_intersect_h h L1 L2 = Ok (h', L') ->
  framed h h' /\ length h <= L' < length h' /\
  exists out, lookup h' L' = Some (Cell (TNode EVENT_LIST) out) /\
              forall k, In k out -> length h <= k < length h'.
Proof. exact fpi_h_framed. Qed.
Print Assumptions C09_intersect_inputs_not_modified.

(* in the words of the property: both argument lists read after the call as before it *)
Theorem C09_intersect_inputs_read_the_same : forall h L1 L2 h' L' vs1 vs2,
  filter_period_intersect_h h L1 L2 = Ok (h', L') ->
  list_at h L1 = Some vs1 -> list_at h L2 = Some vs2 ->
  list_at h' L1 = Some vs1 /\ list_at h' L2 = Some vs2.
Proof. exact fpi_h_inputs_unchanged. Qed.
Print Assumptions C09_intersect_inputs_read_the_same.

Theorem C09_result_shares_nothing : forall h h' L' l,
  framed h h' -> length h <= L' -> rt h' L' l -> length h <= l.
Proof. exact framed_result_fresh. Qed.
Print Assumptions C09_result_shares_nothing.

(* (c) REFINEMENT, for every aliasing of the arguments *)
Theorem C09_intersect_refines : forall h L1 L2 vs1 vs2,
  wf h -> list_at h L1 = Some vs1 -> list_at h L2 = Some vs2 ->
  match filter_period_intersect vs1 vs2 with
  | Ok r => exists h' L', filter_period_intersect_h h L1 L2 = Ok (h', L') /\ list_at h' L' = Some r
  | Err c => filter_period_intersect_h h L1 L2 = Err c
  | OutOfFuel => filter_period_intersect_h h L1 L2 = OutOfFuel
  end.
Proof. exact fpi_h_refines. Qed.
Print Assumptions C09_intersect_refines.

Theorem C09_intersect_refines_total : forall h L1 L2 vs1 vs2,
  wf h -> list_at h L1 = Some vs1 -> list_at h L2 = Some vs2 ->
  exists h' L' r, filter_period_intersect_h h L1 L2 = Ok (h', L') /\ list_at h' L' = Some r /\
                  filter_period_intersect vs1 vs2 = Ok r.
Proof. exact fpi_h_total. Qed.
Print Assumptions C09_intersect_refines_total.

(* period_union.  (c) REFINEMENT against period_union with the label of {}. *)
Theorem C09_union_refines : forall h L1 L2 vs1 vs2,
  wf h -> list_at h L1 = Some vs1 -> list_at h L2 = Some vs2 ->
  match period_union EMPTY_DICT vs1 vs2 with
  | Ok r => exists h' L', period_union_h h L1 L2 = Ok (h', L') /\ list_at h' L' = Some r
  | Err c => period_union_h h L1 L2 = Err c
  | OutOfFuel => period_union_h h L1 L2 = OutOfFuel
  end.
Proof. exact pu_h_refines. Qed.
Print Assumptions C09_union_refines.

Theorem C09_union_refines_total : forall h L1 L2 vs1 vs2,
  wf h -> list_at h L1 = Some vs1 -> list_at h L2 = Some vs2 ->
  exists h' L' r, period_union_h h L1 L2 = Ok (h', L') /\ list_at h' L' = Some r /\
                  period_union EMPTY_DICT vs1 vs2 = Ok r.
Proof. exact pu_h_total. Qed.
Print Assumptions C09_union_refines_total.

(* What period_union preserves and what it does not (the property forbids modification only
   for filter_period_intersect; DESIGN 0.3).  For every heap and arguments: the returned list
   is new; a cell that existed is unchanged, or it is an Event that is an element of the
   returned list and only its data reference changed, to a new empty dict -- so both
   argument lists, every data dict and every id/timestamp/duration are as before; new cells
   other than the returned list refer to new cells only. *)
Theorem C09_union_frame : forall h L1 L2 h' L',
  period_union_h h L1 L2 = Ok (h', L') ->
  length h <= L' < length h' /\
  exists out, lookup h' L' = Some (Cell (TNode EVENT_LIST) out) /\
    (forall l, l < length h -> lookup h' l = lookup h l \/ (data_cleared h h' l /\ In l out)) /\
    (forall l c k, length h <= l -> l <> L' -> lookup h' l = Some c -> In k (children c) ->
                   length h <= k < length h').
Proof. exact pu_h_frame. Qed.
Print Assumptions C09_union_frame.

(* Non-vacuity (ex_heap: Proofs/TransformHeapTheorems.v; 3 = [a; b], 4 = [a; b; a], 5 = []). *)
Example C09own_intersect_nonvacuous :
  wf ex_heap /\
  (exists h', filter_period_intersect_h ex_heap 4 4 = Ok (h', 12) /\
              list_at h' 12 = Some [mkEvent (Some 1%Z) 1000 2000 5; mkEvent (Some 1%Z) 1000 2000 5;
                                    mkEvent (Some 2%Z) 4000 1000 5] /\
              list_at h' 4 = list_at ex_heap 4).
Proof.
  split; [exact ex_heap_wf|]. eexists. split; [vm_compute; reflexivity|]. split; reflexivity.
Qed.

(* period_union hands back the caller's own events a and b (locations 1 and 2) and replaces
   their data reference (was the shared dict at 0, labelled 5) by two new empty dicts; the
   dict at 0 itself is untouched *)
Example C09own_union_modifies_callers_events :
  exists h', period_union_h ex_heap 3 5 = Ok (h', 8) /\
             lookup h' 8 = Some (Cell (TNode EVENT_LIST) [1; 2]) /\
             lookup ex_heap 1 = Some (Cell (TEv (Some 1%Z) 1000 2000) [0]) /\
             lookup h' 1 = Some (Cell (TEv (Some 1%Z) 1000 2000) [6]) /\
             lookup h' 6 = Some (Cell (TNode EMPTY_DICT) []) /\
             lookup h' 0 = lookup ex_heap 0 /\
             list_at h' 8 = Some [mkEvent (Some 1%Z) 1000 2000 0; mkEvent (Some 2%Z) 4000 1000 0].
Proof. eexists. split; [vm_compute; reflexivity|]. repeat split; reflexivity. Qed.
