(* C19 at the level of objects: which cells the annotating transforms write.  Property
   statements only; each theorem is closed by [exact <lemma>] and followed by Print Assumptions.

   Model: Model/ClassifyHeap.v - categorize, tag, split_url_events (annotate IN PLACE: they
   write into the data dict object of every listed event; categorize / tag return a new list
   of the same Event objects, split_url_events returns the argument list itself) and
   simplify_string (deep-copies first, writes the copies) as programs over the object heap.
   Proofs: Proofs/DictHeapBase.v, ClassifyHeapFrame.v.  Tie to the code: harness/theap2.py.

   rewrites S N owned h h'   h' is h after (a) allocations of list / dict objects whose
       members satisfy N and (b) writes into dict objects at locations in S that change only
       keys in [owned] and add only members satisfying N that have no members themselves.
   data_of h ks              S: the data dicts of the Events in the argument list.
   The theorems C19_rewrites_* say what that means: every other cell (other events' data,
   nested data under other keys, the argument list, the rules) keeps its content, every
   Event keeps id / timestamp / duration / data reference, a written dict reads the same
   under every key that is not owned. *)
From AwVerif Require Import Base.Prelude Model.MemHeap Model.TransformHeap Model.DictHeap
  Model.ClassifyBase Model.Classify Model.ClassifyHeap
  Proofs.MemHeapBase Proofs.MemHeapCopy Proofs.MemHeapFrame
  Proofs.TransformHeapBase Proofs.DictHeapBase Proofs.ClassifyHeapFrame.
Local Open Scope nat_scope.
Local Notation lookup := MemHeap.lookup.

(* categorize: for every engine, heap, argument and rule list, also when it raises midway
   (h' is then the heap reached).  Written: key `$category` of the data dicts of the listed
   events; the new member is a rule's category list OBJECT ([cat_locs]: shared with the
   caller's rules and between events) or a new list; the returned list is a new list cell
   with the SAME elements. *)
Theorem C19_categorize_writes : forall re h L classes h' r,
  categorize_h re h L classes = (h', r) ->
  (forall p ks, lookup h L <> Some (Cell (TNode p) ks)) /\ h' = h /\ (forall L', r <> Ok L') \/
  exists p ks, lookup h L = Some (Cell (TNode p) ks) /\
    rewrites (data_of h ks) (cat_new h ks classes) (eq K_category) h h' /\
    forall L', r = Ok L' -> length h <= L' /\ lookup h' L' = Some (Cell (TNode EVENT_LIST) ks).
Proof. exact categorize_h_frame. Qed.
Print Assumptions C19_categorize_writes.

(* tag: key `$tags`; the new member is a new list per event *)
Theorem C19_tag_writes : forall re h L classes h' r,
  tag_h re h L classes = (h', r) ->
  (forall p ks, lookup h L <> Some (Cell (TNode p) ks)) /\ h' = h /\ (forall L', r <> Ok L') \/
  exists p ks, lookup h L = Some (Cell (TNode p) ks) /\
    rewrites (data_of h ks) (tag_new h ks) (eq K_tags) h h' /\
    forall L', r = Ok L' -> length h <= L' /\ lookup h' L' = Some (Cell (TNode EVENT_LIST) ks).
Proof. exact tag_h_frame. Qed.
Print Assumptions C19_tag_writes.

(* split_url_events: the six url keys; nothing is allocated, no member is added
   (N = False); the ARGUMENT LIST OBJECT is returned *)
Theorem C19_split_url_writes_cells : forall up sw d4 h L h' r,
  split_url_events_h up sw d4 h L = (h', r) ->
  (forall p ks, lookup h L <> Some (Cell (TNode p) ks)) /\ h' = h /\ (forall L', r <> Ok L') \/
  exists p ks, lookup h L = Some (Cell (TNode p) ks) /\
    rewrites (data_of h ks) (fun _ => False) url_owned h h' /\
    forall L', r = Ok L' -> L' = L.
Proof. exact split_h_frame. Qed.
Print Assumptions C19_split_url_writes_cells.

(* simplify_string: copies first.  Every cell that existed is as it was, the returned list
   is new and everything new refers to new cells only (Props/C10own.v's [framed]) *)
Theorem C19_simplify_input_not_modified : forall sp sf sd h L key h' L',
  simplify_string_h sp sf sd h L key = Ok (h', L') ->
  framed h h' /\ length h <= L' < length h'.
Proof. exact simplify_h_framed. Qed.
Print Assumptions C19_simplify_input_not_modified.

(* ---- what [rewrites] means ---- *)
Theorem C19_rewrites_other_cells : forall S N owned h h', rewrites S N owned h h' ->
  forall l, l < length h -> ~ S l -> lookup h' l = lookup h l.
Proof. exact rewrites_other. Qed.
Print Assumptions C19_rewrites_other_cells.

Theorem C19_rewrites_events_untouched : forall S N owned h h', rewrites S N owned h h' ->
  forall l i t d ks, lookup h l = Some (Cell (TEv i t d) ks) <-> lookup h' l = Some (Cell (TEv i t d) ks).
Proof. exact rewrites_event. Qed.
Print Assumptions C19_rewrites_events_untouched.

Theorem C19_rewrites_unrelated_keys : forall S N owned h h', rewrites S N owned h h' ->
  forall l z, rd_dict h l = Ok z ->
  exists z', rd_dict h' l = Ok z' /\ forall k, ~ owned k -> zget k z' = zget k z.
Proof. exact rewrites_dict. Qed.
Print Assumptions C19_rewrites_unrelated_keys.

Theorem C19_rewrites_grows : forall S N owned h h', rewrites S N owned h h' -> length h <= length h'.
Proof. exact rewrites_length. Qed.
Print Assumptions C19_rewrites_grows.

Theorem C19_rewrites_wf : forall S N owned h h', rewrites S N owned h h' -> wf h -> wf h'.
Proof. exact rewrites_wf. Qed.
Print Assumptions C19_rewrites_wf.

(* in the vocabulary of Proofs/MemHeapFrame.v (what Props/C12.v asks of a built-in) *)
Theorem C19_rewrites_confined : forall (S N : loc -> Prop) owned h0 A,
  (forall l, S l -> reach h0 A l) -> (forall k, N k -> length h0 <= k \/ reach h0 A k) ->
  forall h h', rewrites S N owned h h' -> confined h0 A h -> confined h0 A h'.
Proof. exact rewrites_confined. Qed.
Print Assumptions C19_rewrites_confined.

(* ---- Non-vacuity ----
   ex19: a = Event(id 1, {title: str 5, k101: [str 3, str 4]}), b = Event({title: str 6}),
   the argument list [a; b; a] at 5, a rule's category list [str 7, str 8] at 6; the
   engine finds pattern 9 in string 5 only. *)
Definition ex19 : heap :=
  [ dict_cell [(K_title, ZS 10); (101%Z, ZK 1)];
    Cell (TNode (lenc [3; 4]%Z)) [];
    Cell (TEv (Some 1%Z) 1000 2000) [0];
    dict_cell [(K_title, ZS 12)];
    Cell (TEv None 5000 1000) [3];
    Cell (TNode EVENT_LIST) [2; 4; 2];
    Cell (TNode (lenc [7; 8]%Z)) [] ].
Definition re9 (p : Z) (ic : bool) (s : Z) : bool := ((p =? 9) && (s =? 5))%Z.
Definition r9 : rule := rule_init (mkSpec (Some 9%Z) None false).
Definition ex19_a : cevent := mkCE (Some 1%Z) 1000 2000 [(K_title, VStr 5); (101%Z, VList [3; 4]%Z)].
Definition ex19_b : cevent := mkCE None 5000 1000 [(K_title, VStr 6)].

Example C19own_nonvacuous :
  clist_at ex19 5 = Some [ex19_a; ex19_b; ex19_a] /\
  (* categorize: the returned list (10) is new and holds the same objects 2, 4, 2; it reads
     back as the functional model's result; a's data dict now REFERS to the rule's own
     category list object 6, b's to a new ["Uncategorized"] list *)
  (exists h', categorize_h re9 ex19 5 [(6, r9)] = (h', Ok 10) /\
     lookup h' 10 = Some (Cell (TNode EVENT_LIST) [2; 4; 2]) /\
     clist_at h' 10 = Some (categorize re9 [ex19_a; ex19_b; ex19_a] [([7; 8]%Z, r9)]) /\
     (exists p, lookup h' 0 = Some (Cell (TNode p) [1; 6])) /\
     (exists p, lookup h' 3 = Some (Cell (TNode p) [8])) /\
     lookup h' 2 = lookup ex19 2 /\ lookup h' 1 = lookup ex19 1 /\ lookup h' 5 = lookup ex19 5) /\
  (* simplify_string: the argument reads back the same, the result is a copy *)
  (exists h', simplify_string_h (fun s => s + 100)%Z (fun s => s) (fun s => s) ex19 5 K_title = Ok (h', 12) /\
     clist_at h' 5 = Some [ex19_a; ex19_b; ex19_a] /\
     clist_at h' 12 = Some [mkCE (Some 1%Z) 1000 2000 [(K_title, VStr 205); (101%Z, VList [3; 4]%Z)];
                            mkCE None 5000 1000 [(K_title, VStr 106)];
                            mkCE (Some 1%Z) 1000 2000 [(K_title, VStr 205); (101%Z, VList [3; 4]%Z)]]).
Proof.
  split; [vm_compute; reflexivity|]. split.
  - eexists. split; [vm_compute; reflexivity|].
    split; [vm_compute; reflexivity|]. split; [vm_compute; reflexivity|].
    split; [eexists; vm_compute; reflexivity|]. split; [eexists; vm_compute; reflexivity|].
    repeat split; vm_compute; reflexivity.
  - eexists. split; [vm_compute; reflexivity|]. split; vm_compute; reflexivity.
Qed.
