(* C19 at the level of objects: which cells the annotating transforms write.  Property
   statements only; each theorem is closed by [exact <lemma>] and followed by Print Assumptions.

   Model: Model/ClassifyHeap.v - categorize, tag, split_url_events (annotate IN PLACE: they
   write into the data dict object of every listed event; categorize / tag return a new list
   of the same Event objects, split_url_events returns the argument list itself) and
   simplify_string (deep-copies first, writes the copies) as programs over the object heap.
   Proofs: Proofs/DictHeapBase.v, ClassifyHeapFrame.v.  Tie to the code: harness/theap2.py.

   rewrites S N owned h h'   h' is h after (a) allocations of list / dict objects whose
       members satisfy N and (b) writes into dict objects at locations in S that change only
       keys in [owned] and add only members satisfying N that have no members themselves.
   data_of h ks              S: the data dicts of the Events in the argument list.
   The theorems C19_rewrites_* say what that means: every other cell (other events' data,
   nested data under other keys, the argument list, the rules) keeps its content, every
   Event keeps id / timestamp / duration / data reference, a written dict reads the same
   under every key that is not owned. *)
From AwVerif Require Import Base.Prelude Model.MemHeap Model.TransformHeap Model.DictHeap
  Model.ClassifyBase Model.Classify Model.ClassifyHeap
  Proofs.MemHeapBase Proofs.MemHeapCopy Proofs.MemHeapFrame
  Proofs.TransformHeapBase Proofs.DictHeapBase Proofs.ClassifyHeapFrame
  Proofs.ClassifyStore Proofs.ClassifyHeapRefine Proofs.TransformHeapCopy Proofs.TransformHeapTheorems
  Proofs.ClassifyHeapSimplify.
Local Open Scope nat_scope.
Local Notation lookup := MemHeap.lookup.

(* categorize: for every engine, heap, argument and rule list, also when it raises midway
   (h' is then the heap reached).  Written: key `$category` of the data dicts of the listed
   events; the new member is a rule's category list OBJECT ([cat_locs]: shared with the
   caller's rules and between events) or a new list; the returned list is a new list cell
   with the SAME elements. *)
Theorem C19_categorize_writes : forall re h L classes h' r,
  categorize_h re h L classes = (h', r) ->
  (forall p ks, lookup h L <> Some (Cell (TNode p) ks)) /\ h' = h /\ (forall L', r <> Ok L') \/
  exists p ks, lookup h L = Some (Cell (TNode p) ks) /\
    rewrites (data_of h ks) (cat_new h ks classes) (eq K_category) h h' /\
    forall L', r = Ok L' -> length h <= L' /\ lookup h' L' = Some (Cell (TNode EVENT_LIST) ks).
Proof. exact categorize_h_frame. Qed.
Print Assumptions C19_categorize_writes.

(* tag: key `$tags`; the new member is a new list per event *)
Theorem C19_tag_writes : forall re h L classes h' r,
  tag_h re h L classes = (h', r) ->
  (forall p ks, lookup h L <> Some (Cell (TNode p) ks)) /\ h' = h /\ (forall L', r <> Ok L') \/
  exists p ks, lookup h L = Some (Cell (TNode p) ks) /\
    rewrites (data_of h ks) (tag_new h ks) (eq K_tags) h h' /\
    forall L', r = Ok L' -> length h <= L' /\ lookup h' L' = Some (Cell (TNode EVENT_LIST) ks).
Proof. exact tag_h_frame. Qed.
Print Assumptions C19_tag_writes.

(* split_url_events: the six url keys; nothing is allocated, no member is added
   (N = False); the ARGUMENT LIST OBJECT is returned *)
Theorem C19_split_url_writes_cells : forall up sw d4 h L h' r,
  split_url_events_h up sw d4 h L = (h', r) ->
  (forall p ks, lookup h L <> Some (Cell (TNode p) ks)) /\ h' = h /\ (forall L', r <> Ok L') \/
  exists p ks, lookup h L = Some (Cell (TNode p) ks) /\
    rewrites (data_of h ks) (fun _ => False) url_owned h h' /\
    forall L', r = Ok L' -> L' = L.
Proof. exact split_h_frame. Qed.
Print Assumptions C19_split_url_writes_cells.

(* simplify_string: copies first.  Every cell that existed is as it was, the returned list
   is new and everything new refers to new cells only (Props/C10own.v's [framed]) *)
Theorem C19_simplify_input_not_modified : forall sp sf sd h L key h' L',
  simplify_string_h sp sf sd h L key = Ok (h', L') ->
  framed h h' /\ length h <= L' < length h'.
Proof. exact simplify_h_framed. Qed.
Print Assumptions C19_simplify_input_not_modified.

(* ---- what [rewrites] means ---- *)
Theorem C19_rewrites_other_cells : forall S N owned h h', rewrites S N owned h h' ->
  forall l, l < length h -> ~ S l -> lookup h' l = lookup h l.
Proof. exact rewrites_other. Qed.
Print Assumptions C19_rewrites_other_cells.

Theorem C19_rewrites_events_untouched : forall S N owned h h', rewrites S N owned h h' ->
  forall l i t d ks, lookup h l = Some (Cell (TEv i t d) ks) <-> lookup h' l = Some (Cell (TEv i t d) ks).
Proof. exact rewrites_event. Qed.
Print Assumptions C19_rewrites_events_untouched.

Theorem C19_rewrites_unrelated_keys : forall S N owned h h', rewrites S N owned h h' ->
  forall l z, rd_dict h l = Ok z ->
  exists z', rd_dict h' l = Ok z' /\ forall k, ~ owned k -> zget k z' = zget k z.
Proof. exact rewrites_dict. Qed.
Print Assumptions C19_rewrites_unrelated_keys.

Theorem C19_rewrites_grows : forall S N owned h h', rewrites S N owned h h' -> length h <= length h'.
Proof. exact rewrites_length. Qed.
Print Assumptions C19_rewrites_grows.

Theorem C19_rewrites_wf : forall S N owned h h', rewrites S N owned h h' -> wf h -> wf h'.
Proof. exact rewrites_wf. Qed.
Print Assumptions C19_rewrites_wf.

(* in the vocabulary of Proofs/MemHeapFrame.v (what Props/C12.v asks of a built-in) *)
Theorem C19_rewrites_confined : forall (S N : loc -> Prop) owned h0 A,
  (forall l, S l -> reach h0 A l) -> (forall k, N k -> length h0 <= k \/ reach h0 A k) ->
  forall h h', rewrites S N owned h h' -> confined h0 A h -> confined h0 A h'.
Proof. exact rewrites_confined. Qed.
Print Assumptions C19_rewrites_confined.

(* ---- Non-vacuity ----
   ex19: a = Event(id 1, {title: str 5, k101: [str 3, str 4]}), b = Event({title: str 6}),
   the argument list [a; b; a] at 5, a rule's category list [str 7, str 8] at 6; the
   engine finds pattern 9 in string 5 only. *)
Definition ex19 : heap :=
  [ dict_cell [(K_title, ZS 10); (101%Z, ZK 1)];
    Cell (TNode (lenc [3; 4]%Z)) [];
    Cell (TEv (Some 1%Z) 1000 2000) [0];
    dict_cell [(K_title, ZS 12)];
    Cell (TEv None 5000 1000) [3];
    Cell (TNode EVENT_LIST) [2; 4; 2];
    Cell (TNode (lenc [7; 8]%Z)) [] ].
Definition re9 (p : Z) (ic : bool) (s : Z) : bool := ((p =? 9) && (s =? 5))%Z.
Definition r9 : rule := rule_init (mkSpec (Some 9%Z) None false).
Definition ex19_a : cevent := mkCE (Some 1%Z) 1000 2000 [(K_title, VStr 5); (101%Z, VList [3; 4]%Z)].
Definition ex19_b : cevent := mkCE None 5000 1000 [(K_title, VStr 6)].

Example C19own_nonvacuous :
  clist_at ex19 5 = Some [ex19_a; ex19_b; ex19_a] /\
  (* categorize: the returned list (10) is new and holds the same objects 2, 4, 2; it reads
     back as the functional model's result; a's data dict now REFERS to the rule's own
     category list object 6, b's to a new ["Uncategorized"] list *)
  (exists h', categorize_h re9 ex19 5 [(6, r9)] = (h', Ok 10) /\
     lookup h' 10 = Some (Cell (TNode EVENT_LIST) [2; 4; 2]) /\
     clist_at h' 10 = Some (categorize re9 [ex19_a; ex19_b; ex19_a] [([7; 8]%Z, r9)]) /\
     (exists p, lookup h' 0 = Some (Cell (TNode p) [1; 6])) /\
     (exists p, lookup h' 3 = Some (Cell (TNode p) [8])) /\
     lookup h' 2 = lookup ex19 2 /\ lookup h' 1 = lookup ex19 1 /\ lookup h' 5 = lookup ex19 5) /\
  (* simplify_string: the argument reads back the same, the result is a copy *)
  (exists h', simplify_string_h (fun s => s + 100)%Z (fun s => s) (fun s => s) ex19 5 K_title = Ok (h', 12) /\
     clist_at h' 5 = Some [ex19_a; ex19_b; ex19_a] /\
     clist_at h' 12 = Some [mkCE (Some 1%Z) 1000 2000 [(K_title, VStr 205); (101%Z, VList [3; 4]%Z)];
                            mkCE None 5000 1000 [(K_title, VStr 106)];
                            mkCE (Some 1%Z) 1000 2000 [(K_title, VStr 205); (101%Z, VList [3; 4]%Z)]]).
Proof.
  split; [vm_compute; reflexivity|]. split.
  - eexists. split; [vm_compute; reflexivity|].
    split; [vm_compute; reflexivity|]. split; [vm_compute; reflexivity|].
    split; [eexists; vm_compute; reflexivity|]. split; [eexists; vm_compute; reflexivity|].
    repeat split; vm_compute; reflexivity.
  - eexists. split; [vm_compute; reflexivity|]. split; vm_compute; reflexivity.
Qed.

(* ---- REFINEMENT to Model/Classify.v, for every aliasing (task B11) ----
   Proofs/ClassifyStore.v, Proofs/ClassifyHeapRefine.v.

   vd                  a listed event WITH the identity of its data dict: (value, location)
   views h ks vds      the Events at ks read back as vds (cview = cev_at + the dict's location)
   sequential f vds    REFERENCE SEMANTICS of an in-place pass (no heap): the events are
                       handled in list order; each iteration reads the CURRENT content of
                       its event's dict object, applies f and overwrites it - every event
                       that has that object as its data shows the new content at once
   fcat / ftag / split_dict / simplify_dict    the per-dict functions of the four transforms
   sepd dls h          no member (nested list / dict value) of a listed data dict is itself
                       a listed data dict
   classes_at h cl gcl the rules' category list OBJECTS cl hold the categories gcl
   Hypotheses are about the kinds of objects only (what is written is not also read as a
   value); no closedness, no acyclicity, no distinctness of Events or dicts. *)

(* EXACTLY what the code does, any aliasing: the heap program computes [sequential] *)
Theorem C19_categorize_sequential : forall re h L classes gclasses p ks vds,
  lookup h L = Some (Cell (TNode p) ks) -> views h ks vds -> classes_at h classes gclasses ->
  sepd (map snd vds) h -> (forall c, In c (map fst classes) -> ~ In c (map snd vds)) ->
  exists h' L' vds',
    categorize_h re h L classes = (h', Ok L') /\
    sequential (fcat re gclasses) vds = (vds', Ok tt) /\
    lookup h' L' = Some (Cell (TNode EVENT_LIST) ks) /\ views h' ks vds' /\
    clist_at h' L' = Some (map fst vds').
Proof. exact categorize_h_sequential. Qed.
Print Assumptions C19_categorize_sequential.

Theorem C19_tag_sequential : forall re h L classes p ks vds,
  lookup h L = Some (Cell (TNode p) ks) -> views h ks vds -> sepd (map snd vds) h ->
  exists h' L' vds',
    tag_h re h L classes = (h', Ok L') /\
    sequential (ftag re classes) vds = (vds', Ok tt) /\
    lookup h' L' = Some (Cell (TNode EVENT_LIST) ks) /\ views h' ks vds' /\
    clist_at h' L' = Some (map fst vds').
Proof. exact tag_h_sequential. Qed.
Print Assumptions C19_tag_sequential.

(* split_url_events: same outcome (returns / exception class) as the reference semantics;
   the heap reached - also when raising midway - shows its state *)
Theorem C19_split_url_sequential : forall up sw d4 h L p ks vds,
  (forall u q, up u = Ok q -> scalar_parts sw d4 q) ->
  lookup h L = Some (Cell (TNode p) ks) -> views h ks vds -> sepd (map snd vds) h ->
  exists h' vds',
    fst (split_url_events_h up sw d4 h L) = h' /\
    fst (sequential (split_dict up sw d4) vds) = vds' /\
    views h' ks vds' /\
    match snd (sequential (split_dict up sw d4) vds) with
    | Ok _ => snd (split_url_events_h up sw d4 h L) = Ok L
    | Err c => snd (split_url_events_h up sw d4 h L) = Err c
    | OutOfFuel => snd (split_url_events_h up sw d4 h L) = OutOfFuel
    end.
Proof. exact split_h_sequential. Qed.
Print Assumptions C19_split_url_sequential.

(* simplify_string = deep copy (Props/C10own.v: C10_deepcopy_memo*, the copy has exactly the
   sharing of the original) followed by this loop on the copies; the composition is
   C19_simplify_sequential / _refines / _shared at the end of this file *)
Theorem C19_simplify_loop_sequential : forall sp sf sd key h ks vds,
  views h ks vds -> sepd (map snd vds) h ->
  snd (each_h (simplify_one_h sp sf sd key) h ks) = snd (sequential (simplify_dict sp sf sd key) vds) /\
  views (fst (each_h (simplify_one_h sp sf sd key) h ks)) ks (fst (sequential (simplify_dict sp sf sd key) vds)).
Proof. exact simplify_loop_sequential. Qed.
Print Assumptions C19_simplify_loop_sequential.

(* what [sequential] is: (1) pairwise distinct dict objects - the functional model, event by
   event, also when it raises; (2) in general, when it goes through - f once per listed
   occurrence of the event's dict; (3) f idempotent on the dicts concerned - the
   functional model again *)
Theorem C19_sequential_distinct : forall f vds, NoDup (map snd vds) ->
  match map_res (fe f) vds with
  | Ok vds' => sequential f vds = (vds', Ok tt)
  | Err c => snd (sequential f vds) = Err c
  | OutOfFuel => snd (sequential f vds) = OutOfFuel
  end.
Proof. exact sequential_nodup. Qed.
Print Assumptions C19_sequential_distinct.

Theorem C19_sequential_closed_form : forall f todo vds vds', consistent vds -> incl todo (map snd vds) ->
  srun f todo vds = (vds', Ok tt) ->
  Forall2 (fun x x' => x' = (set_cdata (fst x) (c_data (fst x')), snd x) /\
                       iter_res (count_occ Nat.eq_dec todo (snd x)) f (c_data (fst x)) = Ok (c_data (fst x')))
          vds vds'.
Proof. exact srun_closed. Qed.
Print Assumptions C19_sequential_closed_form.

Theorem C19_sequential_idempotent : forall f vds vds', consistent vds ->
  (forall x d', In x vds -> f (c_data (fst x)) = Ok d' -> f d' = Ok d') ->
  sequential f vds = (vds', Ok tt) -> map_res (fe f) vds = Ok vds'.
Proof. exact sequential_idempotent. Qed.
Print Assumptions C19_sequential_idempotent.

(* (1) the exact hypothesis of the functional reading: pairwise distinct data dicts *)
Theorem C19_categorize_refines : forall re h L classes gclasses p ks vds,
  lookup h L = Some (Cell (TNode p) ks) -> views h ks vds -> classes_at h classes gclasses ->
  sepd (map snd vds) h -> (forall c, In c (map fst classes) -> ~ In c (map snd vds)) ->
  NoDup (map snd vds) ->
  exists h' L', categorize_h re h L classes = (h', Ok L') /\
                clist_at h' L' = Some (categorize re (map fst vds) gclasses).
Proof. exact categorize_h_refines. Qed.
Print Assumptions C19_categorize_refines.

Theorem C19_tag_refines : forall re h L classes p ks vds,
  lookup h L = Some (Cell (TNode p) ks) -> views h ks vds -> sepd (map snd vds) h ->
  NoDup (map snd vds) ->
  exists h' L', tag_h re h L classes = (h', Ok L') /\
                clist_at h' L' = Some (tag re (map fst vds) classes).
Proof. exact tag_h_refines. Qed.
Print Assumptions C19_tag_refines.

Theorem C19_split_url_refines : forall up sw d4 h L p ks vds,
  (forall u q, up u = Ok q -> scalar_parts sw d4 q) ->
  lookup h L = Some (Cell (TNode p) ks) -> views h ks vds -> sepd (map snd vds) h ->
  ~ In L (map snd vds) -> NoDup (map snd vds) ->
  match split_url_events up sw d4 (map fst vds) with
  | Ok out => snd (split_url_events_h up sw d4 h L) = Ok L /\
              clist_at (fst (split_url_events_h up sw d4 h L)) L = Some out
  | Err c => snd (split_url_events_h up sw d4 h L) = Err c
  | OutOfFuel => snd (split_url_events_h up sw d4 h L) = OutOfFuel
  end.
Proof. exact split_h_refines. Qed.
Print Assumptions C19_split_url_refines.

(* (2) shared dicts: the data of an event ends up as fcat / ftag applied once per listed
   occurrence of its dict object (the later iterations see the earlier writes) *)
Theorem C19_categorize_shared : forall re h L classes gclasses p ks vds,
  lookup h L = Some (Cell (TNode p) ks) -> views h ks vds -> classes_at h classes gclasses ->
  sepd (map snd vds) h -> (forall c, In c (map fst classes) -> ~ In c (map snd vds)) ->
  exists h' L' vds', categorize_h re h L classes = (h', Ok L') /\ clist_at h' L' = Some (map fst vds') /\
                     Forall2 (result_of (fcat re gclasses) (map snd vds)) vds vds'.
Proof. exact categorize_h_shared. Qed.
Print Assumptions C19_categorize_shared.

Theorem C19_tag_shared : forall re h L classes p ks vds,
  lookup h L = Some (Cell (TNode p) ks) -> views h ks vds -> sepd (map snd vds) h ->
  exists h' L' vds', tag_h re h L classes = (h', Ok L') /\ clist_at h' L' = Some (map fst vds') /\
                     Forall2 (result_of (ftag re classes) (map snd vds)) vds vds'.
Proof. exact tag_h_shared. Qed.
Print Assumptions C19_tag_shared.

(* (3) shared dicts, and no listed event carries a STRING under `$category` / `$tags` (the
   only way an earlier write can change what a later iteration matches): the functional
   model; split_url_events: always (its six writes do not change what it reads) *)
Theorem C19_categorize_refines_shared : forall re h L classes gclasses p ks vds,
  lookup h L = Some (Cell (TNode p) ks) -> views h ks vds -> classes_at h classes gclasses ->
  sepd (map snd vds) h -> (forall c, In c (map fst classes) -> ~ In c (map snd vds)) ->
  (forall x s, In x vds -> dget K_category (c_data (fst x)) <> Some (VStr s)) ->
  exists h' L', categorize_h re h L classes = (h', Ok L') /\
                clist_at h' L' = Some (categorize re (map fst vds) gclasses).
Proof. exact categorize_h_refines_shared. Qed.
Print Assumptions C19_categorize_refines_shared.

Theorem C19_tag_refines_shared : forall re h L classes p ks vds,
  lookup h L = Some (Cell (TNode p) ks) -> views h ks vds -> sepd (map snd vds) h ->
  (forall x s, In x vds -> dget K_tags (c_data (fst x)) <> Some (VStr s)) ->
  exists h' L', tag_h re h L classes = (h', Ok L') /\
                clist_at h' L' = Some (tag re (map fst vds) classes).
Proof. exact tag_h_refines_shared. Qed.
Print Assumptions C19_tag_refines_shared.

Theorem C19_split_url_refines_shared : forall up sw d4 h L p ks vds L',
  (forall u q, up u = Ok q -> scalar_parts sw d4 q) ->
  lookup h L = Some (Cell (TNode p) ks) -> views h ks vds -> sepd (map snd vds) h ->
  ~ In L (map snd vds) ->
  snd (split_url_events_h up sw d4 h L) = Ok L' ->
  L' = L /\ exists out, split_url_events up sw d4 (map fst vds) = Ok out /\
                        clist_at (fst (split_url_events_h up sw d4 h L)) L = Some out.
Proof. exact split_h_refines_shared. Qed.
Print Assumptions C19_split_url_refines_shared.

(* ---- Non-vacuity ----
   the hypotheses are met by ex19, whose list [a; b; a] lists one Event twice (so its
   dict 0 occurs twice: shared), with a nested list value (cell 1) and the rule's
   category list (cell 6) *)
Example C19own_refine_hypotheses_met :
  views ex19 [2; 4; 2] [(ex19_a, 0); (ex19_b, 3); (ex19_a, 0)] /\
  sepd [0; 3; 0] ex19 /\ classes_at ex19 [(6, r9)] [([7; 8]%Z, r9)] /\
  (forall c, In c [6] -> ~ In c [0; 3; 0]) /\ ~ In 5 [0; 3; 0] /\
  (forall x s, In x [(ex19_a, 0); (ex19_b, 3); (ex19_a, 0)] -> dget K_category (c_data (fst x)) <> Some (VStr s)).
Proof.
  split; [repeat constructor; vm_compute; reflexivity|]. split.
  { intros dl p kk l I Lk Il Id.
    destruct I as [<-|[<-|[<-|[]]]]; vm_compute in Lk; inversion Lk; subst kk;
      (destruct Il as [<-|[]] || destruct Il);
      destruct Id as [E|[E|[E|[]]]]; discriminate E. }
  split. { constructor; [|constructor]. split; [reflexivity|]. eexists. split; vm_compute; reflexivity. }
  split. { intros c [<-|[]] [E|[E|[E|[]]]]; discriminate E. }
  split. { intros [E|[E|[E|[]]]]; discriminate E. }
  intros x s [<-|[<-|[<-|[]]]]; vm_compute; discriminate.
Qed.

(* the string case excluded in (3) is real: one Event listed twice (or two Events sharing the
   dict) whose `$category` is a string that the rule matches - the first iteration replaces
   the string by the category list, the second no longer matches and writes
   ["Uncategorized"]; the functional model gives [7; 8] to both.  Replayed on the
   implementation (notes/agents/THEAP3.md). *)
Definition ex19s : heap :=
  [ dict_cell [(K_title, ZS 12); (K_category, ZS 10)];
    Cell (TEv None 0 1000) [0];
    Cell (TNode EVENT_LIST) [1; 1];
    Cell (TNode (lenc [7; 8]%Z)) [] ].
Definition ex19s_e : cevent := mkCE None 0 1000 [(K_title, VStr 6); (K_category, VStr 5)].

Example C19own_shared_string_category_differs :
  clist_at ex19s 2 = Some [ex19s_e; ex19s_e] /\
  (exists h', categorize_h re9 ex19s 2 [(3, r9)] = (h', Ok 6) /\
     clist_at h' 6 = Some [set_cdata ex19s_e [(K_title, VStr 6); (K_category, VList [S_uncategorized])];
                           set_cdata ex19s_e [(K_title, VStr 6); (K_category, VList [S_uncategorized])]]) /\
  categorize re9 [ex19s_e; ex19s_e] [([7; 8]%Z, r9)] =
    [set_cdata ex19s_e [(K_title, VStr 6); (K_category, VList [7; 8]%Z)];
     set_cdata ex19s_e [(K_title, VStr 6); (K_category, VList [7; 8]%Z)]].
Proof.
  split; [vm_compute; reflexivity|]. split; [|vm_compute; reflexivity].
  eexists. split; vm_compute; reflexivity.
Qed.

(* ---- simplify_string as a WHOLE call: deepcopy composed with the loop ----
   Proofs/ClassifyHeapSimplify.v.  copy.deepcopy keeps a memo, so the copies share data dicts
   exactly as the originals do (Proofs/TransformHeapCopy.v: the memo is a graph morphism,
   injective, and a function on acyclic heaps); the loop then runs on the copies.  Three
   facts compose the two: a copied Event reads back as the original with the memo image of
   its dict; [sepd] carries over to the copies; the reference semantics is invariant under a
   one-to-one renaming of dict identities.
   Hypotheses: wf h (closed, acyclic: deepcopy returns; Python would also copy cyclic data),
   the argument list object is not itself a listed data dict (list vs dict), sepd. *)

(* the three composition facts *)
Theorem C19_deepcopy_event_reads_the_same : forall h L h1 m L1, copied h L h1 m L1 ->
  forall e e1 v dl, In (e, e1) m -> cview h e = Some (v, dl) ->
  exists dl1, In (dl, dl1) m /\ cview h1 e1 = Some (v, dl1).
Proof. exact copied_cview. Qed.
Print Assumptions C19_deepcopy_event_reads_the_same.

Theorem C19_deepcopy_keeps_separation : forall h L h1 m L1, copied h L h1 m L1 ->
  forall ks vds vds1, views h ks vds -> ren (related m) vds vds1 ->
  sepd (map snd vds) h -> sepd (map snd vds1) h1.
Proof. exact copied_sepd. Qed.
Print Assumptions C19_deepcopy_keeps_separation.

Theorem C19_sequential_renaming : forall f (R : nat -> nat -> Prop),
  (forall a b c, R a c -> R b c -> a = b) -> (forall a b c, R a b -> R a c -> b = c) ->
  forall vds vds1, ren R vds vds1 ->
  snd (sequential f vds) = snd (sequential f vds1) /\
  map fst (fst (sequential f vds)) = map fst (fst (sequential f vds1)).
Proof. exact sequential_ren. Qed.
Print Assumptions C19_sequential_renaming.

(* EXACTLY what the call does, any aliasing: outcome (returns / exception class) and the
   returned events are those of the reference semantics on the ARGUMENT's events with their
   own dict identities; the argument reads back unchanged; no cell that existed is written,
   the returned list is new *)
Theorem C19_simplify_sequential : forall sp sf sd key h L p ks vds,
  wf h -> lookup h L = Some (Cell (TNode p) ks) -> views h ks vds ->
  sepd (map snd vds) h -> ~ In L (map snd vds) ->
  match snd (sequential (simplify_dict sp sf sd key) vds) with
  | Ok _ => exists h' L', simplify_string_h sp sf sd h L key = Ok (h', L') /\
              clist_at h' L' = Some (map fst (fst (sequential (simplify_dict sp sf sd key) vds))) /\
              clist_at h' L = Some (map fst vds) /\
              framed h h' /\ length h <= L' < length h'
  | Err c => simplify_string_h sp sf sd h L key = Err c
  | OutOfFuel => simplify_string_h sp sf sd h L key = OutOfFuel
  end.
Proof. exact simplify_h_sequential. Qed.
Print Assumptions C19_simplify_sequential.

(* (1) pairwise distinct data dicts among the listed events: reading the returned events
   gives exactly Model/Classify.v's simplify_string of the read-back argument (or the same
   exception class); the input cells are unchanged *)
Theorem C19_simplify_refines : forall sp sf sd key h L p ks vds,
  wf h -> lookup h L = Some (Cell (TNode p) ks) -> views h ks vds ->
  sepd (map snd vds) h -> ~ In L (map snd vds) -> NoDup (map snd vds) ->
  match simplify_string sp sf sd (map fst vds) key with
  | Ok out => exists h' L', simplify_string_h sp sf sd h L key = Ok (h', L') /\
                clist_at h' L' = Some out /\ clist_at h' L = Some (map fst vds) /\
                framed h h' /\ length h <= L' < length h'
  | Err c => simplify_string_h sp sf sd h L key = Err c
  | OutOfFuel => simplify_string_h sp sf sd h L key = OutOfFuel
  end.
Proof. exact simplify_h_refines. Qed.
Print Assumptions C19_simplify_refines.

(* (2) shared data dicts: the call returns iff the reference semantics goes through, and
   then every returned event carries the substitution applied once per listed occurrence of
   the ORIGINAL event's dict object; otherwise the same exception class *)
Theorem C19_simplify_shared : forall sp sf sd key h L p ks vds,
  wf h -> lookup h L = Some (Cell (TNode p) ks) -> views h ks vds ->
  sepd (map snd vds) h -> ~ In L (map snd vds) ->
  (exists h' L' vds', simplify_string_h sp sf sd h L key = Ok (h', L') /\
      clist_at h' L' = Some (map fst vds') /\
      Forall2 (result_of (simplify_dict sp sf sd key) (map snd vds)) vds vds' /\
      clist_at h' L = Some (map fst vds) /\ framed h h' /\ length h <= L' < length h') \/
  (exists c, simplify_string_h sp sf sd h L key = Err c /\
             snd (sequential (simplify_dict sp sf sd key) vds) = Err c).
Proof. exact simplify_h_shared. Qed.
Print Assumptions C19_simplify_shared.

(* ---- Non-vacuity ----
   ex19m (every cell refers to earlier cells only: wf): events 2 and 3 SHARE the data dict 1
   (title str 5, a nested list value at 0), event 5 has its own dict 4 (title str 6); the
   argument list [2; 3; 5] at 6.  With sub_parens = +100: the shared dict's copy is
   substituted twice (5 -> 205), the other once (6 -> 106); the functional model gives 105 to
   both sharers - the hypothesis NoDup of C19_simplify_refines is exact. *)
Definition ex19m : heap :=
  [ Cell (TNode (lenc [3; 4]%Z)) [];
    dict_cell [(K_title, ZS 10); (101%Z, ZK 0)];
    Cell (TEv (Some 1%Z) 1000 2000) [1];
    Cell (TEv None 5000 1000) [1];
    dict_cell [(K_title, ZS 12)];
    Cell (TEv None 7000 1000) [4];
    Cell (TNode EVENT_LIST) [2; 3; 5] ].
Definition ex19m_a : cevent := mkCE (Some 1%Z) 1000 2000 [(K_title, VStr 5); (101%Z, VList [3; 4]%Z)].
Definition ex19m_b : cevent := mkCE None 5000 1000 [(K_title, VStr 5); (101%Z, VList [3; 4]%Z)].
Definition ex19m_c : cevent := mkCE None 7000 1000 [(K_title, VStr 6)].

Example C19own_simplify_hypotheses_met :
  wf ex19m /\ views ex19m [2; 3; 5] [(ex19m_a, 1); (ex19m_b, 1); (ex19m_c, 4)] /\
  sepd [1; 1; 4] ex19m /\ ~ In 6 [1; 1; 4] /\
  (* the list without the second sharer: pairwise distinct dicts *)
  NoDup [1; 4].
Proof.
  split; [apply ordered_wf; reflexivity|].
  split; [repeat constructor; vm_compute; reflexivity|]. split.
  { intros dl p kk l I Lk Il Id.
    destruct I as [<-|[<-|[<-|[]]]]; vm_compute in Lk; inversion Lk; subst kk;
      (destruct Il as [<-|[]] || destruct Il);
      destruct Id as [E|[E|[E|[]]]]; discriminate E. }
  split. { intros [E|[E|[E|[]]]]; discriminate E. }
  repeat constructor; cbn; intuition discriminate.
Qed.

Example C19own_simplify_shared_runs_twice :
  (exists h' L', simplify_string_h (fun s => s + 100)%Z (fun s => s) (fun s => s) ex19m 6 K_title = Ok (h', L') /\
     clist_at h' L' = Some [set_cdata ex19m_a [(K_title, VStr 205); (101%Z, VList [3; 4]%Z)];
                            set_cdata ex19m_b [(K_title, VStr 205); (101%Z, VList [3; 4]%Z)];
                            set_cdata ex19m_c [(K_title, VStr 106)]] /\
     clist_at h' 6 = Some [ex19m_a; ex19m_b; ex19m_c]) /\
  map fst (fst (sequential (simplify_dict (fun s => s + 100)%Z (fun s => s) (fun s => s) K_title)
                           [(ex19m_a, 1); (ex19m_b, 1); (ex19m_c, 4)])) =
    [set_cdata ex19m_a [(K_title, VStr 205); (101%Z, VList [3; 4]%Z)];
     set_cdata ex19m_b [(K_title, VStr 205); (101%Z, VList [3; 4]%Z)];
     set_cdata ex19m_c [(K_title, VStr 106)]] /\
  simplify_string (fun s => s + 100)%Z (fun s => s) (fun s => s) [ex19m_a; ex19m_b; ex19m_c] K_title =
    Ok [set_cdata ex19m_a [(K_title, VStr 105); (101%Z, VList [3; 4]%Z)];
        set_cdata ex19m_b [(K_title, VStr 105); (101%Z, VList [3; 4]%Z)];
        set_cdata ex19m_c [(K_title, VStr 106)]].
Proof.
  split; [|split; vm_compute; reflexivity].
  eexists _, _. split; [vm_compute; reflexivity|]. split; vm_compute; reflexivity.
Qed.
