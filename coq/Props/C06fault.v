(* C06 over histories in which the ENGINE RAISES - a COMMIT ('database is locked', disk full, a
   transient I/O error), an execute, an executemany part-way - the storage call propagates the
   exception and the caller carries on with the same store.  Property statements only.
   Model: Model/CommitFault.v (the fault machine built for C18: Model/Commit.v plus the engine's
   answer to every COMMIT a step attempts and statements that raise; unchanged) and
   Model/CommitFaultCalls.v (added: histories of CALLS, the flag "this write belongs to a call
   that returned normally", what a crash would lose of them); proofs: Proofs/CommitFaultC06.v.

   A history is a list of calls, each the list of the steps it executed; the machine runs their
   concatenation ([frun]); a crash point is any cut of it; [recover] is what a reopen sees.
   A call RETURNED NORMALLY when none of its steps raised ([returned] / [returnedb]); its writes
   are ACKNOWLEDGED.  What is assumed about the calls ([calls_ok]):
     - a call that returned normally ran the whole script of its storage method
       ([map fm tro = map Step (expand o)] for some o);
     - a call that RAISED ran ANY steps whatever (any statements, any number of commit attempts,
       raising or not, in any order), with non-negative conditional_commit counts.
   [calls_shaped] is the special case the code gives: whole scripts and [fault_script]s.

   What is claimed about the writes of calls that RAISED: they are issued writes like any other,
   so they are durable or lost in issue order with everything else (C06f_prefix), they are
   flushed by the next COMMIT that succeeds, and when it was the count-branch flush that failed
   the counter keeps them counted and the next event write that returns has flushed them
   (C06f_failed_flush_is_retried).  NOT claimed: that they are durable, that they are rolled
   back (a delete_bucket whose second DELETE raises leaves its first in the open transaction:
   Example C06f_raised_delete_bucket_is_not_rolled_back), or that their number is bounded
   (every call that raises can add its own writes: C06f_every_commit_fails).  What IS bounded,
   whatever raises wherever: the ACKNOWLEDGED writes a crash loses - at most 50, and at most the
   counter (C06f_bounded_loss).  That rests on the statement order of commit():
   `self.conn.commit()` FIRST, so a COMMIT that raises leaves the counter as it was
   ([code_commit_raises]; regenerated from the source and bridged in Bridge/BridgeCommitFault.v).
   The sensitivity examples run the same machine with the bookkeeping before the engine call. *)
From AwVerif Require Import Base.Prelude Model.Commit Model.CommitFault Model.CommitFaultCalls
  Proofs.CommitProofs Proofs.CommitAge Proofs.CommitFaultProofs Proofs.CommitFaultC06.

(* At every crash point of ANY sequence of steps (any faults at any positions, no hypothesis)
   the recovered database is the initial one followed by a prefix, in issue order, of the writes
   issued - the rows an executemany went through before it raised included, a statement that
   raised having written nothing - and what is missing is exactly the open transaction. *)
Theorem C06f_prefix : forall lazy c0 t0 tr k,
  let s := cs (frun lazy (finit c0 t0) (firstn k tr)) in
  exists p,
    prefix p (fwrites_all tr) /\
    recover s = c0 ++ p /\
    p ++ pending s = fwrites_all (firstn k tr).
Proof. exact fcrash_prefix. Qed.
Print Assumptions C06f_prefix.

(* Bounded loss, no call in flight.  [fl] flags every issued write with "its call returned
   normally"; [missing_acked] counts the flagged writes beyond the durable prefix.  After ANY
   history of calls - any number of them raising, at any engine call - a crash loses at most 50
   acknowledged writes, and never more than the counter says.  Everything else that is pending
   ([missing_raised]) belongs to calls that raised. *)
Theorem C06f_bounded_loss : forall lazy c0 t0 calls,
  calls_ok lazy (finit c0 t0) calls ->
  let fl := ack_flags lazy (finit c0 t0) calls in
  let s := cs (frun lazy (finit c0 t0) (concat calls)) in
  (missing_acked c0 s fl <= 50)%nat /\
  Z.of_nat (missing_acked c0 s fl) <= n_unc s /\
  length (pending s) = (missing_acked c0 s fl + missing_raised c0 s fl)%nat /\
  length fl = length (fwrites_all (concat calls)).
Proof. exact fbounded_loss. Qed.
Print Assumptions C06f_bounded_loss.

(* A crash inside a call, after ANY steps [tro] of it (no hypothesis on them): at most 50
   acknowledged writes of the completed calls are missing. *)
Theorem C06f_bounded_loss_in_flight : forall lazy c0 t0 calls tro,
  calls_ok lazy (finit c0 t0) calls ->
  let fl := ack_flags lazy (finit c0 t0) calls in
  let s := cs (frun lazy (finit c0 t0) (concat calls ++ tro)) in
  (missing_acked c0 s fl <= 50)%nat.
Proof. exact fbounded_loss_in_flight. Qed.
Print Assumptions C06f_bounded_loss_in_flight.

(* What the storage methods give: every call runs the whole script of its method (whatever the
   engine answers at its commits), or the steps [fault_script] leaves of it when the engine
   raises once, and then it did raise.  Such histories meet the hypothesis above. *)
Theorem C06f_method_calls_are_calls : forall lazy calls fs,
  calls_shaped lazy fs calls -> calls_ok lazy fs calls.
Proof. exact calls_shaped_ok. Qed.
Print Assumptions C06f_method_calls_are_calls.

Theorem C06f_bounded_loss_method_calls : forall lazy c0 t0 calls tro,
  calls_shaped lazy (finit c0 t0) calls ->
  let fl := ack_flags lazy (finit c0 t0) calls in
  let s := cs (frun lazy (finit c0 t0) (concat calls ++ tro)) in
  (missing_acked c0 s fl <= 50)%nat.
Proof. exact fbounded_loss_shaped. Qed.
Print Assumptions C06f_bounded_loss_method_calls.

(* create_bucket / update_bucket / delete_bucket that RETURNED NORMALLY, from ANY state earlier
   faults may have left: nothing is pending - its own writes and everything buffered before,
   the writes of calls that raised included, are durable. *)
Theorem C06f_bucket_ops_durable : forall lazy fs o tro,
  bucket_op o -> map fm tro = map Step (expand o) -> returned lazy fs tro ->
  pending (cs (frun lazy fs tro)) = [] /\
  recover (cs (frun lazy fs tro)) = committed (cs fs) ++ pending (cs fs) ++ writes_of (expand o).
Proof. exact fbucket_ops_durable. Qed.
Print Assumptions C06f_bucket_ops_durable.

(* The auto-committing store (enable_lazy_commit = False): an event write or bucket call that
   RETURNED NORMALLY leaves nothing pending, from any state earlier faults may have left. *)
Theorem C06f_eager_returned_durable : forall fs o tro,
  event_write_op o \/ bucket_op o ->
  map fm tro = map Step (expand o) -> returned false fs tro ->
  pending (cs (frun false fs tro)) = [].
Proof. exact feager_returned_durable. Qed.
Print Assumptions C06f_eager_returned_durable.

(* A single-event or bucket-level call ALL of whose statements ran (its own commit may have
   raised; [tr1], [tr2] are any steps with any faults) is never split: at every cut the
   recovered database has none of its writes or all of them. *)
Theorem C06f_single_op_atomic : forall lazy c0 t0 tr1 tro tr2 o k,
  atomic_op o -> map fm tro = map Step (expand o) ->
  let s := cs (frun lazy (finit c0 t0) (firstn k (tr1 ++ tro ++ tr2))) in
  (length (recover s) <= length c0 + length (fwrites_all tr1))%nat \/
  (length c0 + length (fwrites_all tr1) + length (writes_of (expand o)) <= length (recover s))%nat.
Proof. exact fsingle_op_atomic. Qed.
Print Assumptions C06f_single_op_atomic.

(* a single-event call in which the engine raised once has issued its one write or none *)
Theorem C06f_single_event_fault_all_or_none : forall o f ms,
  single_event_op o -> fault_script o f = Some ms ->
  flat_map fwrites ms = [] \/ flat_map fwrites ms = writes_of (expand o).
Proof. exact fsingle_event_fault_all_or_none. Qed.
Print Assumptions C06f_single_event_fault_all_or_none.

(* What a failed COMMIT leaves counted.  A call with a commit decision that returned normally
   leaves the counter within the threshold; steps that raise can only add their own counts to
   it (a COMMIT that raises resets nothing); and while the counter is above the threshold the
   next event write that RETURNS has flushed everything: the failed flush is retried at once,
   not 50 writes later. *)
Theorem C06f_counter_after_return : forall lazy fs o tro,
  event_write_op o \/ bucket_op o ->
  map fm tro = map Step (expand o) -> returned lazy fs tro ->
  n_unc (cs (frun lazy fs tro)) <= THRESHOLD.
Proof. exact fcounter_after_return. Qed.
Print Assumptions C06f_counter_after_return.

Theorem C06f_counter_growth : forall lazy tr fs, nonneg_counts tr ->
  n_unc (cs (frun lazy fs tr)) <= Z.max 0 (n_unc (cs fs)) + sum_counts tr.
Proof. exact fcounter_growth. Qed.
Print Assumptions C06f_counter_growth.

Theorem C06f_failed_flush_is_retried : forall lazy fs o tro,
  event_write_op o -> map fm tro = map Step (expand o) ->
  n_unc (cs fs) > THRESHOLD -> returned lazy fs tro ->
  pending (cs (frun lazy fs tro)) = [].
Proof. exact ffailed_flush_retried. Qed.
Print Assumptions C06f_failed_flush_is_retried.

(* ---- examples ---- *)

(* Non-vacuity, the code as it is.  50 inserts stay buffered; the 51st's count COMMIT raises:
   the call raises, nothing became durable, 51 writes are pending of which 50 are acknowledged,
   the counter keeps its 51 - the hypothesis of C06f_failed_flush_is_retried -; the 52nd insert
   returns normally and has flushed all 52. *)
Example C06f_nonvacuous :
  let calls := burst all_ok 1 50 ++ burst commit_raises 51 1 in
  let fs1 := frun true (finit [] 0) (concat calls) in
  let fl := ack_flags true (finit [] 0) calls in
  calls_ok true (finit [] 0) (calls ++ burst all_ok 52 1) /\
  (ntrue fl, nfalse fl) = (50%nat, 1%nat) /\
  (length (pending (cs fs1)), length (recover (cs fs1)), n_unc (cs fs1)) = (51%nat, 0%nat, 51) /\
  (missing_acked [] (cs fs1) fl, missing_raised [] (cs fs1) fl) = (50%nat, 1%nat) /\
  returned true fs1 (ins all_ok 52) /\
  (length (pending (cs (frun true fs1 (ins all_ok 52)))), length (recover (cs (frun true fs1 (ins all_ok 52)))))
    = (0%nat, 52%nat).
Proof.
  split; [|vm_compute; repeat split; try reflexivity; intros H; discriminate H].
  apply calls_ok_app; [apply calls_ok_app|]; apply burst_ok.
Qed.

(* Sensitivity, the seeded change: `num_uncommitted_statements = 0; last_commit = now` BEFORE
   `self.conn.commit()` ([bookkeeping_first]).  Same history, then 50 more inserts: the COMMIT
   that raised already reset the counter, the 51 pending writes are counted by nobody, the next
   50 inserts all return normally without a flush - 100 ACKNOWLEDGED writes (101 in all) would be
   lost, with the counter at 50.  On the code as it is the same history never has more than 50. *)
Example C06f_bookkeeping_first_breaks_bound :
  let calls := burst all_ok 1 50 ++ burst commit_raises 51 1 ++ burst all_ok 52 50 in
  let run cr := cs (frun_with cr true (finit [] 0) (concat calls)) in
  let fl cr := ack_flags_with cr true (finit [] 0) calls in
  (missing_acked [] (run bookkeeping_first) (fl bookkeeping_first),
   length (pending (run bookkeeping_first)), n_unc (run bookkeeping_first)) = (100%nat, 101%nat, 50) /\
  (missing_acked [] (run code_commit_raises) (fl code_commit_raises),
   length (pending (run code_commit_raises)), n_unc (run code_commit_raises)) = (49%nat, 49%nat, 49) /\
  calls_ok true (finit [] 0) calls.
Proof.
  split; [vm_compute; reflexivity|]. split; [vm_compute; reflexivity|].
  apply calls_ok_app; [|apply calls_ok_app]; apply burst_ok.
Qed.

(* Only the counter reset placed before the engine call ([counter_reset_first]; last_commit
   stays truthful, so C18's age statements survive: Props/C18fault.v): the count breaks in the
   same way. *)
Example C06f_counter_reset_first_breaks_bound :
  let calls := burst all_ok 1 50 ++ burst commit_raises 51 1 ++ burst all_ok 52 50 in
  let s := cs (frun_with counter_reset_first true (finit [] 0) (concat calls)) in
  let fl := ack_flags_with counter_reset_first true (finit [] 0) calls in
  (missing_acked [] s fl, length (pending s), n_unc s) = (100%nat, 101%nat, 50).
Proof. vm_compute. reflexivity. Qed.

(* a commit() that swallows the exception: the 51st insert is acknowledged as well *)
Example C06f_exception_swallowed_breaks_bound :
  let calls := burst all_ok 1 50 ++ burst commit_raises 51 1 ++ burst all_ok 52 50 in
  let s := cs (frun_with exception_swallowed true (finit [] 0) (concat calls)) in
  let fl := ack_flags_with exception_swallowed true (finit [] 0) calls in
  (missing_acked [] s fl, length (pending s), n_unc s) = (101%nat, 101%nat, 50).
Proof. vm_compute. reflexivity. Qed.

(* What is NOT bounded: the writes of calls that raised.  120 inserts of which every COMMIT
   raises from the 51st on: 120 writes pending, the counter at 120, but only the 50 of the
   calls that returned normally are acknowledged. *)
Example C06f_every_commit_fails :
  let calls := burst all_ok 1 50 ++ burst commit_raises 51 70 in
  let s := cs (frun true (finit [] 0) (concat calls)) in
  let fl := ack_flags true (finit [] 0) calls in
  (missing_acked [] s fl, missing_raised [] s fl, length (pending s), n_unc s) = (50%nat, 70%nat, 120%nat, 120) /\
  calls_ok true (finit [] 0) calls.
Proof. split; [vm_compute; reflexivity|]. apply calls_ok_app; apply burst_ok. Qed.

(* Under faults in BUCKET operations the fault-free invariant |pending| <= counter of
   Props/C06.v does not hold: a create_bucket whose COMMIT raises leaves its row pending and
   uncounted (the caller was told: the call raised).  An insert that then returns normally
   leaves 2 writes pending with the counter at 1 - one acknowledged, one of the call that
   raised - and an update_bucket that returns normally makes all of them durable. *)
Example C06f_bucket_commit_fault :
  let create := [mkIn (Step (Exec 7)) (at_ 1000) all_ok; mkIn (Step Commit) (at_ 1000) commit_raises] in
  let update := [mkIn (Step (Exec 9)) (at_ 3000) all_ok; mkIn (Step Commit) (at_ 3000) all_ok;
                 mkIn (Step Read) (at_ 3000) all_ok] in
  let calls := [create; ins all_ok 2] in
  let s := cs (frun true (finit [] 0) (concat calls)) in
  let fl := ack_flags true (finit [] 0) calls in
  fault_script (CreateBucket 7) (CommitFault 1) = Some (map fm create) /\
  calls_shaped true (finit [] 0) (calls ++ [update]) /\
  fl = [false; true] /\
  (pending s, n_unc s, missing_acked [] s fl, missing_raised [] s fl) = ([7; 2], 1, 1%nat, 1%nat) /\
  returned true (frun true (finit [] 0) (concat calls)) update /\
  recover (cs (frun true (finit [] 0) (concat (calls ++ [update])))) = [7; 2; 9].
Proof.
  cbv zeta. split; [reflexivity|]. split.
  - split; [|split; [|split; [|exact I]]].
    + eapply (shape_fault _ _ _ (CreateBucket 7) (CommitFault 1)); [reflexivity|reflexivity|].
      vm_compute. intros [_ [H _]]. discriminate H.
    + apply (shape_full _ _ _ (InsertOne 2)). reflexivity.
    + apply (shape_full _ _ _ (UpdateBucket 9)). reflexivity.
  - vm_compute. repeat split; reflexivity.
Qed.

(* NOT claimed: rollback of a call that raised.  delete_bucket whose second DELETE raises: its
   first DELETE (token 8) stays in the open transaction, the second (token 9) is never issued;
   the next flush makes 8 durable without 9, for good.  The caller got an exception; the code
   has no rollback.  (C06f_single_op_atomic is about calls all of whose statements ran.) *)
Example C06f_raised_delete_bucket_is_not_rolled_back :
  let del := [mkIn (Step (Exec 8)) (at_ 1000) all_ok; mkIn ExecRaises (at_ 1000) all_ok] in
  let read := [mkIn (Step Commit) (at_ 2000) all_ok; mkIn (Step Read) (at_ 2000) all_ok] in
  fault_script (DeleteBucket 8 9) (StatementFault 1) = Some (map fm del) /\
  ~ returned true (finit [] 0) del /\
  pending (cs (frun true (finit [] 0) del)) = [8] /\
  recover (cs (frun true (finit [] 0) (del ++ read))) = [8] /\
  fwrites_all (del ++ read) = [8].
Proof.
  vm_compute. repeat split; try reflexivity. intros [_ [H _]]. discriminate H.
Qed.
