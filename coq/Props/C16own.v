(* C16, last clause: "none of these modify their input."  Property statements only; each
   theorem is closed by [exact <lemma>] and followed by Print Assumptions.

   Model: Model/GroupHeap.v - the C16 transforms as programs over the object heap of
   Model/MemHeap.v (Event cells, list cells, data dicts with structure: Model/DictHeap.v):
   what each one allocates, which cells it writes, which references it stores.
   Proofs: Proofs/DictHeapBase.v, GroupHeapFrame.v, GroupHeapRefine.v.
   Tie to the code: harness/theap2.py (sharing graphs + before/after snapshots with
   aliasing inputs, driver Extract/ExTHeap.v).

   Vocabulary.
     kept h h'          FRAME: every location of h holds in h' the cell it held in h (so no
                        list, Event, dict or nested value that existed before the call is
                        changed, whatever is aliased with whatever), h' only grows.
     one_new_list h h' L' out   h' = h ++ [the list cell L' with elements out]: the call
                        allocated exactly one object, the returned list.
     grown P h h'       kept, and every cell allocated since refers only to cells
                        allocated earlier in the call or to old cells satisfying P
                        (SHARING: exactly which input objects the output may refer to).
     glist_at h L       the list object at L read back as Model/Group.v's `list gev`. *)
From AwVerif Require Import Base.Prelude Model.MemHeap Model.TransformHeap Model.DictHeap Model.Group
  Model.GroupHeap
  Proofs.MemHeapBase Proofs.MemHeapCopy Proofs.MemHeapFrame
  Proofs.TransformHeapBase Proofs.DictHeapBase Proofs.GroupHeapFrame Proofs.GroupHeapRefine.
From Coq Require Import Sorting.Permutation.
Local Open Scope nat_scope.
Local Notation lookup := MemHeap.lookup.

(* ---- sort_by_timestamp, sort_by_duration, limit_events, filter_keyvals, concat ----
   FRAME + SHARING, for every heap and argument (any aliasing, ill-typed cells included):
   whenever the call returns, the heap is the old heap plus ONE cell, the returned list;
   its elements are the caller's own Event objects: a permutation of / a prefix of /
   some of / the concatenation of the elements of the argument list(s). *)
Theorem C16_sort_timestamp_shares : forall h L h' L',
  sort_by_timestamp_h h L = Ok (h', L') ->
  exists p ks out, lookup h L = Some (Cell (TNode p) ks) /\ one_new_list h h' L' out /\ Permutation out ks.
Proof. exact sort_ts_h_shape. Qed.
Print Assumptions C16_sort_timestamp_shares.

Theorem C16_sort_duration_shares : forall h L h' L',
  sort_by_duration_h h L = Ok (h', L') ->
  exists p ks out, lookup h L = Some (Cell (TNode p) ks) /\ one_new_list h h' L' out /\ Permutation out ks.
Proof. exact sort_dur_h_shape. Qed.
Print Assumptions C16_sort_duration_shares.

Theorem C16_limit_shares : forall h L c h' L',
  limit_events_h h L c = Ok (h', L') ->
  exists p ks, lookup h L = Some (Cell (TNode p) ks) /\ one_new_list h h' L' (limit_l ks c).
Proof. exact limit_h_shape. Qed.
Print Assumptions C16_limit_shares.

Theorem C16_filter_shares : forall h L key vals ex h' L',
  filter_keyvals_h h L key vals ex = Ok (h', L') ->
  exists p ks out, lookup h L = Some (Cell (TNode p) ks) /\ one_new_list h h' L' out /\ incl out ks.
Proof. exact filter_h_shape. Qed.
Print Assumptions C16_filter_shares.

Theorem C16_concat_shares : forall h L1 L2 h' L',
  concat_h h L1 L2 = Ok (h', L') ->
  exists p1 ks1 p2 ks2, lookup h L1 = Some (Cell (TNode p1) ks1) /\ lookup h L2 = Some (Cell (TNode p2) ks2) /\
                        one_new_list h h' L' (ks1 ++ ks2).
Proof. exact concat_h_shape. Qed.
Print Assumptions C16_concat_shares.

Theorem C16_one_new_list_frame : forall h h' L' out, one_new_list h h' L' out -> kept h h'.
Proof. exact one_new_list_kept. Qed.
Print Assumptions C16_one_new_list_frame.

(* ---- merge_events_by_keys ----
   keys empty: the INPUT LIST OBJECT itself is returned and nothing is allocated.
   Otherwise, whenever the call returns: FRAME for every heap; the returned list is a new
   object and so is each of its elements; on a heap without dangling references every new
   cell (list, Events, data dicts) refers only to new cells or to a [flat_member]: a list
   object without mutable members that is a value in the data dict of an element of the
   argument list - the list values of the group's first member are shared with the output,
   nothing else is. *)
Theorem C16_merge_frame_and_sharing : forall h L keys h' L',
  merge_events_by_keys_h h L keys = Ok (h', L') ->
  (keys = [] /\ h' = h /\ L' = L) \/
  (keys <> [] /\ exists p ks out,
     lookup h L = Some (Cell (TNode p) ks) /\
     kept h h' /\ length h <= L' < length h' /\
     lookup h' L' = Some (Cell (TNode EVENT_LIST) out) /\
     (forall o, In o out -> length h <= o < length h') /\
     (closed h -> grown (flat_member h ks) h h')).
Proof. exact merge_h_shape. Qed.
Print Assumptions C16_merge_frame_and_sharing.

(* ---- chunk_events_by_key ----
   FRAME for every heap; the returned list and every chunk Event are new, each chunk has a
   new data dict whose "subevents" entry is a new list object ([chunk_ok]); on a heap
   without dangling references the new cells refer only to new cells, to ELEMENTS OF THE
   ARGUMENT LIST (the sub-event lists hold the input Event objects: shared by design) or to
   members of their data dicts (a list-valued data[key] is shared). *)
Theorem C16_chunk_frame_and_sharing : forall sub_key h L key pulse h' L',
  chunk_events_by_key_h sub_key h L key pulse = Ok (h', L') ->
  exists p ks out,
    lookup h L = Some (Cell (TNode p) ks) /\
    kept h h' /\ length h <= L' < length h' /\
    lookup h' L' = Some (Cell (TNode EVENT_LIST) out) /\
    (forall c, In c out -> chunk_ok sub_key h h' c) /\
    (closed h -> grown (chunk_shares h ks) h h').
Proof. exact chunk_h_shape. Qed.
Print Assumptions C16_chunk_frame_and_sharing.

(* ---- what FRAME and SHARING mean ---- *)

(* every argument list reads back the same after the call *)
Theorem C16_frame_on_values : forall h h' L vs, kept h h' -> glist_at h L = Some vs -> glist_at h' L = Some vs.
Proof. exact glist_at_kept. Qed.
Print Assumptions C16_frame_on_values.

(* ... and so does the tree unfolding of every old object (closed heap) *)
Theorem C16_frame_on_content : forall h h' r f, kept h h' -> closed h -> r < length h ->
  content f h' r = content f h r.
Proof. exact kept_content. Qed.
Print Assumptions C16_frame_on_content.

(* in the vocabulary of Proofs/MemHeapFrame.v (what Props/C12.v asks of a built-in) *)
Theorem C16_grown_confined : forall (P : loc -> Prop) h h' A, grown P h h' ->
  (forall k, P k -> reach h A k) -> confined h A h'.
Proof. exact grown_confined. Qed.
Print Assumptions C16_grown_confined.

Theorem C16_grown_wf : forall P h h', grown P h h' -> wf h -> wf h'.
Proof. exact grown_wf. Qed.
Print Assumptions C16_grown_wf.

(* ---- REFINEMENT to Model/Group.v, for every aliasing ----
   If the argument list reads back as vs, the call returns and the returned list reads
   back as the functional model's result on vs (so every theorem of Props/C16.v about
   sort / limit / filter / concat transfers); the argument still reads back as vs. *)
Theorem C16_sort_timestamp_refines : forall h L vs, glist_at h L = Some vs ->
  exists h' L', sort_by_timestamp_h h L = Ok (h', L') /\
                glist_at h' L' = Some (sort_by_timestamp vs) /\ glist_at h' L = Some vs.
Proof. exact sort_ts_h_refines. Qed.
Print Assumptions C16_sort_timestamp_refines.

Theorem C16_sort_duration_refines : forall h L vs, glist_at h L = Some vs ->
  exists h' L', sort_by_duration_h h L = Ok (h', L') /\
                glist_at h' L' = Some (sort_by_duration vs) /\ glist_at h' L = Some vs.
Proof. exact sort_dur_h_refines. Qed.
Print Assumptions C16_sort_duration_refines.

Theorem C16_limit_refines : forall h L c vs, glist_at h L = Some vs ->
  exists h' L', limit_events_h h L c = Ok (h', L') /\
                glist_at h' L' = Some (limit_events vs c) /\ glist_at h' L = Some vs.
Proof. exact limit_h_refines. Qed.
Print Assumptions C16_limit_refines.

Theorem C16_filter_refines : forall h L key vals ex vs, glist_at h L = Some vs ->
  exists h' L', filter_keyvals_h h L key vals ex = Ok (h', L') /\
                glist_at h' L' = Some (filter_keyvals vs key vals ex) /\ glist_at h' L = Some vs.
Proof. exact filter_h_refines. Qed.
Print Assumptions C16_filter_refines.

Theorem C16_concat_refines : forall h L1 L2 vs1 vs2, glist_at h L1 = Some vs1 -> glist_at h L2 = Some vs2 ->
  exists h' L', concat_h h L1 L2 = Ok (h', L') /\
                glist_at h' L' = Some (concat_events vs1 vs2) /\
                glist_at h' L1 = Some vs1 /\ glist_at h' L2 = Some vs2.
Proof. exact concat_h_refines. Qed.
Print Assumptions C16_concat_refines.

Theorem C16_sum_durations_refines : forall h L vs, glist_at h L = Some vs ->
  sum_durations_h h L = Ok (sum_durations vs).
Proof. exact sum_durations_h_refines. Qed.
Print Assumptions C16_sum_durations_refines.

(* the payload code of a dict skeleton is invertible (the only fact about it that is used) *)
Theorem C16_dict_code_invertible : forall d, ddec (denc d) = d.
Proof. exact ddec_denc. Qed.
Print Assumptions C16_dict_code_invertible.

(* ---- Non-vacuity ----
   ex16: a = Event(id 1, 1ms, 2ms, {k100: 1, k101: <list 7>}), b = Event(5ms, 1ms, {k100: 1}),
   the argument list [a; b; a] (the same object twice) at location 5. *)
Definition ex16 : heap :=
  [ dict_cell [(100%Z, ZS 1); (101%Z, ZK 1)];
    Cell (TNode 7) [];
    Cell (TEv (Some 1%Z) 1000 2000) [0];
    dict_cell [(100%Z, ZS 1)];
    Cell (TEv None 5000 1000) [3];
    Cell (TNode EVENT_LIST) [2; 4; 2] ].

Definition ex16_a : gev := mkG (Some 1%Z) 1000 2000 [(100, 1); (101, 7)]%Z.
Definition ex16_b : gev := mkG None 5000 1000 [(100, 1)]%Z.

Example C16own_nonvacuous :
  glist_at ex16 5 = Some [ex16_a; ex16_b; ex16_a] /\
  (* merge on both keys: two groups; the list 7 (location 1) is shared by the first one *)
  (exists h', merge_events_by_keys_h ex16 5 [100; 101]%Z = Ok (h', 12) /\ length h' = 13 /\
     glist_at h' 12 = Some (merge_events_by_keys [ex16_a; ex16_b; ex16_a] [100; 101]%Z) /\
     glist_at h' 5 = Some [ex16_a; ex16_b; ex16_a] /\
     exists p, lookup h' 6 = Some (Cell (TNode p) [1])) /\
  (* no keys: the list object itself *)
  merge_events_by_keys_h ex16 5 [] = Ok (ex16, 5) /\
  (* chunk: one chunk whose sub-event list holds the three input objects *)
  (exists h', chunk_events_by_key_h 99 ex16 5 100 5000000 = Ok (h', 9) /\
     chunks_at 99 100 h' 9 = Some (chunk_events_by_key [ex16_a; ex16_b; ex16_a] 100 5000000) /\
     lookup h' 6 = Some (Cell (TNode EVENT_LIST) [2; 4; 2])) /\
  (* sort by duration: a new list of the same objects *)
  sort_by_duration_h ex16 5 = Ok (ex16 ++ [Cell (TNode EVENT_LIST) [2; 2; 4]], 6).
Proof.
  split; [vm_compute; reflexivity|]. split.
  { eexists. split; [vm_compute; reflexivity|]. split; [reflexivity|]. split; [vm_compute; reflexivity|].
    split; [vm_compute; reflexivity|]. eexists. vm_compute. reflexivity. }
  split; [reflexivity|]. split.
  { eexists. split; [vm_compute; reflexivity|]. split; vm_compute; reflexivity. }
  vm_compute. reflexivity.
Qed.
