(* C16, last clause: "none of these modify their input."  Property statements only; each
   theorem is closed by [exact <lemma>] and followed by Print Assumptions.

   Model: Model/GroupHeap.v - the C16 transforms as programs over the object heap of
   Model/MemHeap.v (Event cells, list cells, data dicts with structure: Model/DictHeap.v):
   what each one allocates, which cells it writes, which references it stores.
   Proofs: Proofs/DictHeapBase.v, GroupHeapFrame.v, GroupHeapRefine.v.
   Tie to the code: harness/theap2.py (sharing graphs + before/after snapshots with
   aliasing inputs, driver Extract/ExTHeap.v).

   Vocabulary.
     kept h h'          FRAME: every location of h holds in h' the cell it held in h (so no
                        list, Event, dict or nested value that existed before the call is
                        changed, whatever is aliased with whatever), h' only grows.
     one_new_list h h' L' out   h' = h ++ [the list cell L' with elements out]: the call
                        allocated exactly one object, the returned list.
     grown P h h'       kept, and every cell allocated since refers only to cells
                        allocated earlier in the call or to old cells satisfying P
                        (SHARING: exactly which input objects the output may refer to).
     glist_at h L       the list object at L read back as Model/Group.v's `list gev`. *)
From AwVerif Require Import Base.Prelude Model.MemHeap Model.TransformHeap Model.DictHeap Model.Group
  Model.GroupHeap
  Proofs.MemHeapBase Proofs.MemHeapCopy Proofs.MemHeapFrame
  Proofs.TransformHeapBase Proofs.DictHeapBase Proofs.GroupHeapFrame Proofs.GroupHeapRefine
  Proofs.GroupHeapMerge Proofs.GroupHeapChunk Proofs.GroupHeapTransfer.
From AwVerif Require Proofs.GroupChunk.
From Coq Require Import Sorting.Permutation.
Local Open Scope nat_scope.
Local Notation lookup := MemHeap.lookup.

(* ---- sort_by_timestamp, sort_by_duration, limit_events, filter_keyvals, concat ----
   FRAME + SHARING, for every heap and argument (any aliasing, ill-typed cells included):
   whenever the call returns, the heap is the old heap plus ONE cell, the returned list;
   its elements are the caller's own Event objects: a permutation of / a prefix of /
   some of / the concatenation of the elements of the argument list(s). *)
Theorem C16_sort_timestamp_shares : forall h L h' L',
  sort_by_timestamp_h h L = Ok (h', L') ->
  exists p ks out, lookup h L = Some (Cell (TNode p) ks) /\ one_new_list h h' L' out /\ Permutation out ks.
Proof. exact sort_ts_h_shape. Qed.
Print Assumptions C16_sort_timestamp_shares.

Theorem C16_sort_duration_shares : forall h L h' L',
  sort_by_duration_h h L = Ok (h', L') ->
  exists p ks out, lookup h L = Some (Cell (TNode p) ks) /\ one_new_list h h' L' out /\ Permutation out ks.
Proof. exact sort_dur_h_shape. Qed.
Print Assumptions C16_sort_duration_shares.

Theorem C16_limit_shares : forall h L c h' L',
  limit_events_h h L c = Ok (h', L') ->
  exists p ks, lookup h L = Some (Cell (TNode p) ks) /\ one_new_list h h' L' (limit_l ks c).
Proof. exact limit_h_shape. Qed.
Print Assumptions C16_limit_shares.

Theorem C16_filter_shares : forall h L key vals ex h' L',
  filter_keyvals_h h L key vals ex = Ok (h', L') ->
  exists p ks out, lookup h L = Some (Cell (TNode p) ks) /\ one_new_list h h' L' out /\ incl out ks.
Proof. exact filter_h_shape. Qed.
Print Assumptions C16_filter_shares.

Theorem C16_concat_shares : forall h L1 L2 h' L',
  concat_h h L1 L2 = Ok (h', L') ->
  exists p1 ks1 p2 ks2, lookup h L1 = Some (Cell (TNode p1) ks1) /\ lookup h L2 = Some (Cell (TNode p2) ks2) /\
                        one_new_list h h' L' (ks1 ++ ks2).
Proof. exact concat_h_shape. Qed.
Print Assumptions C16_concat_shares.

Theorem C16_one_new_list_frame : forall h h' L' out, one_new_list h h' L' out -> kept h h'.
Proof. exact one_new_list_kept. Qed.
Print Assumptions C16_one_new_list_frame.

(* ---- merge_events_by_keys ----
   keys empty: the INPUT LIST OBJECT itself is returned and nothing is allocated.
   Otherwise, whenever the call returns: FRAME for every heap; the returned list is a new
   object and so is each of its elements; on a heap without dangling references every new
   cell (list, Events, data dicts) refers only to new cells or to a [flat_member]: a list
   object without mutable members that is a value in the data dict of an element of the
   argument list - the list values of the group's first member are shared with the output,
   nothing else is. *)
Theorem C16_merge_frame_and_sharing : forall h L keys h' L',
  merge_events_by_keys_h h L keys = Ok (h', L') ->
  (keys = [] /\ h' = h /\ L' = L) \/
  (keys <> [] /\ exists p ks out,
     lookup h L = Some (Cell (TNode p) ks) /\
     kept h h' /\ length h <= L' < length h' /\
     lookup h' L' = Some (Cell (TNode EVENT_LIST) out) /\
     (forall o, In o out -> length h <= o < length h') /\
     (closed h -> grown (flat_member h ks) h h')).
Proof. exact merge_h_shape. Qed.
Print Assumptions C16_merge_frame_and_sharing.

(* ---- chunk_events_by_key ----
   FRAME for every heap; the returned list and every chunk Event are new, each chunk has a
   new data dict whose "subevents" entry is a new list object ([chunk_ok]); on a heap
   without dangling references the new cells refer only to new cells, to ELEMENTS OF THE
   ARGUMENT LIST (the sub-event lists hold the input Event objects: shared by design) or to
   members of their data dicts (a list-valued data[key] is shared). *)
Theorem C16_chunk_frame_and_sharing : forall sub_key h L key pulse h' L',
  chunk_events_by_key_h sub_key h L key pulse = Ok (h', L') ->
  exists p ks out,
    lookup h L = Some (Cell (TNode p) ks) /\
    kept h h' /\ length h <= L' < length h' /\
    lookup h' L' = Some (Cell (TNode EVENT_LIST) out) /\
    (forall c, In c out -> chunk_ok sub_key h h' c) /\
    (closed h -> grown (chunk_shares h ks) h h').
Proof. exact chunk_h_shape. Qed.
Print Assumptions C16_chunk_frame_and_sharing.

(* ---- what FRAME and SHARING mean ---- *)

(* every argument list reads back the same after the call *)
Theorem C16_frame_on_values : forall h h' L vs, kept h h' -> glist_at h L = Some vs -> glist_at h' L = Some vs.
Proof. exact glist_at_kept. Qed.
Print Assumptions C16_frame_on_values.

(* ... and so does the tree unfolding of every old object (closed heap) *)
Theorem C16_frame_on_content : forall h h' r f, kept h h' -> closed h -> r < length h ->
  content f h' r = content f h r.
Proof. exact kept_content. Qed.
Print Assumptions C16_frame_on_content.

(* in the vocabulary of Proofs/MemHeapFrame.v (what Props/C12.v asks of a built-in) *)
Theorem C16_grown_confined : forall (P : loc -> Prop) h h' A, grown P h h' ->
  (forall k, P k -> reach h A k) -> confined h A h'.
Proof. exact grown_confined. Qed.
Print Assumptions C16_grown_confined.

Theorem C16_grown_wf : forall P h h', grown P h h' -> wf h -> wf h'.
Proof. exact grown_wf. Qed.
Print Assumptions C16_grown_wf.

(* ---- REFINEMENT to Model/Group.v, for every aliasing ----
   If the argument list reads back as vs, the call returns and the returned list reads
   back as the functional model's result on vs (so every theorem of Props/C16.v about
   sort / limit / filter / concat transfers); the argument still reads back as vs. *)
Theorem C16_sort_timestamp_refines : forall h L vs, glist_at h L = Some vs ->
  exists h' L', sort_by_timestamp_h h L = Ok (h', L') /\
                glist_at h' L' = Some (sort_by_timestamp vs) /\ glist_at h' L = Some vs.
Proof. exact sort_ts_h_refines. Qed.
Print Assumptions C16_sort_timestamp_refines.

Theorem C16_sort_duration_refines : forall h L vs, glist_at h L = Some vs ->
  exists h' L', sort_by_duration_h h L = Ok (h', L') /\
                glist_at h' L' = Some (sort_by_duration vs) /\ glist_at h' L = Some vs.
Proof. exact sort_dur_h_refines. Qed.
Print Assumptions C16_sort_duration_refines.

Theorem C16_limit_refines : forall h L c vs, glist_at h L = Some vs ->
  exists h' L', limit_events_h h L c = Ok (h', L') /\
                glist_at h' L' = Some (limit_events vs c) /\ glist_at h' L = Some vs.
Proof. exact limit_h_refines. Qed.
Print Assumptions C16_limit_refines.

Theorem C16_filter_refines : forall h L key vals ex vs, glist_at h L = Some vs ->
  exists h' L', filter_keyvals_h h L key vals ex = Ok (h', L') /\
                glist_at h' L' = Some (filter_keyvals vs key vals ex) /\ glist_at h' L = Some vs.
Proof. exact filter_h_refines. Qed.
Print Assumptions C16_filter_refines.

Theorem C16_concat_refines : forall h L1 L2 vs1 vs2, glist_at h L1 = Some vs1 -> glist_at h L2 = Some vs2 ->
  exists h' L', concat_h h L1 L2 = Ok (h', L') /\
                glist_at h' L' = Some (concat_events vs1 vs2) /\
                glist_at h' L1 = Some vs1 /\ glist_at h' L2 = Some vs2.
Proof. exact concat_h_refines. Qed.
Print Assumptions C16_concat_refines.

Theorem C16_sum_durations_refines : forall h L vs, glist_at h L = Some vs ->
  sum_durations_h h L = Ok (sum_durations vs).
Proof. exact sum_durations_h_refines. Qed.
Print Assumptions C16_sum_durations_refines.

(* the payload code of a dict skeleton is invertible (the only fact about it that is used) *)
Theorem C16_dict_code_invertible : forall d, ddec (denc d) = d.
Proof. exact ddec_denc. Qed.
Print Assumptions C16_dict_code_invertible.

(* ---- Non-vacuity ----
   ex16: a = Event(id 1, 1ms, 2ms, {k100: 1, k101: <list 7>}), b = Event(5ms, 1ms, {k100: 1}),
   the argument list [a; b; a] (the same object twice) at location 5. *)
Definition ex16 : heap :=
  [ dict_cell [(100%Z, ZS 1); (101%Z, ZK 1)];
    Cell (TNode 7) [];
    Cell (TEv (Some 1%Z) 1000 2000) [0];
    dict_cell [(100%Z, ZS 1)];
    Cell (TEv None 5000 1000) [3];
    Cell (TNode EVENT_LIST) [2; 4; 2] ].

Definition ex16_a : gev := mkG (Some 1%Z) 1000 2000 [(100, 1); (101, 7)]%Z.
Definition ex16_b : gev := mkG None 5000 1000 [(100, 1)]%Z.

Example C16own_nonvacuous :
  glist_at ex16 5 = Some [ex16_a; ex16_b; ex16_a] /\
  (* merge on both keys: two groups; the list 7 (location 1) is shared by the first one *)
  (exists h', merge_events_by_keys_h ex16 5 [100; 101]%Z = Ok (h', 12) /\ length h' = 13 /\
     glist_at h' 12 = Some (merge_events_by_keys [ex16_a; ex16_b; ex16_a] [100; 101]%Z) /\
     glist_at h' 5 = Some [ex16_a; ex16_b; ex16_a] /\
     exists p, lookup h' 6 = Some (Cell (TNode p) [1])) /\
  (* no keys: the list object itself *)
  merge_events_by_keys_h ex16 5 [] = Ok (ex16, 5) /\
  (* chunk: one chunk whose sub-event list holds the three input objects *)
  (exists h', chunk_events_by_key_h 99 ex16 5 100 5000000 = Ok (h', 9) /\
     chunks_at 99 100 h' 9 = Some (chunk_events_by_key [ex16_a; ex16_b; ex16_a] 100 5000000) /\
     lookup h' 6 = Some (Cell (TNode EVENT_LIST) [2; 4; 2])) /\
  (* sort by duration: a new list of the same objects *)
  sort_by_duration_h ex16 5 = Ok (ex16 ++ [Cell (TNode EVENT_LIST) [2; 2; 4]], 6).
Proof.
  split; [vm_compute; reflexivity|]. split.
  { eexists. split; [vm_compute; reflexivity|]. split; [reflexivity|]. split; [vm_compute; reflexivity|].
    split; [vm_compute; reflexivity|]. eexists. vm_compute. reflexivity. }
  split; [reflexivity|]. split.
  { eexists. split; [vm_compute; reflexivity|]. split; vm_compute; reflexivity. }
  vm_compute. reflexivity.
Qed.

(* ---- REFINEMENT of merge_events_by_keys and chunk_events_by_key (task B11) ----
   Proofs/GroupHeapMerge.v, GroupHeapChunk.v, GroupHeapTransfer.v.  For EVERY heap on which the
   argument list reads back as vs ([glist_at]: its elements are Event objects whose data
   dicts are dict cells with readable entries) and any aliasing Python allows (the same
   Event several times in the list, data dicts shared between Events, list values shared
   between dicts).  No closedness / acyclicity hypothesis.

   hashable h keys z       every value of the dict z under one of the keys is a scalar or a
                           list object without mutable members (what `tuple(val)` can hash)
   hashable_keys h L keys  ... for the data dict of every element of the list at L. *)

(* whenever the call returns, the returned list reads back as the functional model's
   result on vs, and the argument reads back as before *)
Theorem C16_merge_refines_whenever_returns : forall h L keys vs h' L', glist_at h L = Some vs ->
  merge_events_by_keys_h h L keys = Ok (h', L') ->
  glist_at h' L' = Some (merge_events_by_keys vs keys) /\ glist_at h' L = Some vs.
Proof. exact merge_h_refines_partial. Qed.
Print Assumptions C16_merge_refines_whenever_returns.

(* it returns when the values under the keys are hashable ... *)
Theorem C16_merge_refines : forall h L keys vs, glist_at h L = Some vs -> hashable_keys h L keys ->
  exists h' L', merge_events_by_keys_h h L keys = Ok (h', L') /\
                glist_at h' L' = Some (merge_events_by_keys vs keys) /\ glist_at h' L = Some vs.
Proof. exact merge_h_refines. Qed.
Print Assumptions C16_merge_refines.

(* ... and only then: the hypothesis is exact (keys = [] returns the argument at once) *)
Theorem C16_merge_returns_iff : forall h L keys vs, glist_at h L = Some vs -> keys <> [] ->
  ((exists r, merge_events_by_keys_h h L keys = Ok r) <-> hashable_keys h L keys).
Proof. exact merge_h_returns_iff. Qed.
Print Assumptions C16_merge_returns_iff.

(* chunk_events_by_key: total; the returned chunk Events read back ([chunks_at]: data =
   {key: value, sub_key: list of sub-events}) as the functional model's chunks.  key <>
   sub_key is domain decision 2 of notes/agents/C16.md ("subevents" is the chunk's own key) *)
Theorem C16_chunk_refines : forall sub_key h L key pulse vs, key <> sub_key -> glist_at h L = Some vs ->
  exists h' L', chunk_events_by_key_h sub_key h L key pulse = Ok (h', L') /\
                chunks_at sub_key key h' L' = Some (chunk_events_by_key vs key pulse) /\
                glist_at h' L = Some vs.
Proof. exact chunk_h_refines. Qed.
Print Assumptions C16_chunk_refines.

(* With the two refinements every theorem of Props/C16.v speaks about objects.  Two of them
   transferred: the total duration is conserved by merge (an object listed twice counts
   twice); the sub-event lists of the chunks concatenate to the key-bearing prefix, every
   chunk is well-formed and the durations add up. *)
Theorem C16_merge_heap_total_duration : forall h L keys vs, glist_at h L = Some vs -> hashable_keys h L keys ->
  exists h' L' out, merge_events_by_keys_h h L keys = Ok (h', L') /\
                    glist_at h' L' = Some out /\
                    sumZ (map gdur out) = sumZ (map gdur vs) /\
                    glist_at h' L = Some vs.
Proof. exact merge_h_total_duration. Qed.
Print Assumptions C16_merge_heap_total_duration.

Theorem C16_chunk_heap_partition : forall sub_key h L key pulse vs, key <> sub_key -> glist_at h L = Some vs ->
  exists h' L' out, chunk_events_by_key_h sub_key h L key pulse = Ok (h', L') /\
                    chunks_at sub_key key h' L' = Some out /\
                    concat (map csub out) = GroupChunk.key_prefix key vs /\
                    Forall (GroupChunk.chunk_ok key) out /\
                    sumZ (map cdur out) = sumZ (map gdur (GroupChunk.key_prefix key vs)) /\
                    glist_at h' L = Some vs.
Proof. exact chunk_h_partition. Qed.
Print Assumptions C16_chunk_heap_partition.

(* the hypotheses are met by ex16 (list value 7 under key 101 is a flat list; the same
   Event twice) ... *)
Example C16own_refine_hypotheses_met :
  glist_at ex16 5 = Some [ex16_a; ex16_b; ex16_a] /\ hashable_keys ex16 5 [100; 101]%Z /\ (100 <> 99)%Z.
Proof.
  split; [vm_compute; reflexivity|]. split; [|discriminate].
  intros ks e z LE I EZ k l Ik Zk. vm_compute in LE. inversion LE; subst ks.
  destruct I as [<-|[<-|[<-|[]]]]; vm_compute in EZ; inversion EZ; subst z;
    (destruct Ik as [<-|[<-|[]]]; vm_compute in Zk; try discriminate; inversion Zk; subst;
     eexists; vm_compute; reflexivity).
Qed.

(* ... and the hashability hypothesis cannot be dropped: a list value with a mutable member
   (cell 1 refers to cell 2) reads back, but the call raises TypeError (unhashable) where
   the functional model returns a group *)
Definition ex16n : heap :=
  [ dict_cell [(100%Z, ZK 1)]; Cell (TNode 7) [2]; Cell (TNode 8) [];
    Cell (TEv None 0 1000) [0]; Cell (TNode EVENT_LIST) [3] ].

Example C16own_unhashable_raises :
  glist_at ex16n 4 = Some [mkG None 0 1000 [(100, 7)]%Z] /\
  merge_events_by_keys_h ex16n 4 [100%Z] = Err TypeError /\
  ~ hashable_keys ex16n 4 [100%Z].
Proof.
  split; [vm_compute; reflexivity|]. split; [vm_compute; reflexivity|].
  intro Hh. assert (X : exists r, merge_events_by_keys_h ex16n 4 [100%Z] = Ok r).
  { eapply merge_h_returns_iff; [|discriminate|exact Hh]. vm_compute. reflexivity. }
  destruct X as (r & X). vm_compute in X. discriminate.
Qed.
