(* C18 for the calls a program really makes: Datastore / Bucket (Model/CommitApi.v) above the
   commit bookkeeping of SqliteStorage (Model/Commit.v).  Property statements only; proofs
   in Proofs/CommitApiAge.v.  Same clock hypothesis as Props/C18.v. *)
From AwVerif Require Import Base.Prelude Model.Commit Model.CommitApi
  Proofs.CommitProofs Proofs.CommitAge Proofs.CommitApiAge.

(* An event write made through a Bucket object (insert of one event or of ANY list of events,
   with or without ids; replace, replace_last, delete), whether or not the Bucket object has
   to be created first, issued more than 10 s after the last commit, returns with nothing
   pending. *)
Theorem C18_api_age_flush : forall lazy s cached o tro t,
  event_write_op o -> map fst tro = api_expand (ViaBucket cached o) ->
  mono_from t tro -> t - last_commit s > MAX_AGE ->
  pending (run lazy s tro) = [].
Proof. exact api_age_flush. Qed.
Print Assumptions C18_api_age_flush.

(* All histories of public-layer calls (calls that raise included): when no call is in
   flight every write a crash would lose was issued at most 10 s after the last commit. *)
Theorem C18_api_age_bound : forall lazy c0 t0 h tr t,
  map fst tr = api_expand_all h -> mono_from t tr ->
  let s := run lazy (init c0 t0) tr in
  map fst (pending_stamped c0 tr s) = pending s /\
  forall w ti, In (w, ti) (pending_stamped c0 tr s) -> ti - last_commit s <= MAX_AGE.
Proof. exact api_age_bound. Qed.
Print Assumptions C18_api_age_bound.

(* Non-vacuity: ds["b"].replace(..) 11 s after the store was opened, Bucket object not yet
   created (so the call starts with the bucket listing): the write is committed on return. *)
Example C18_api_nonvacuous :
  let at_ t := mkClk t t t in
  let tr := map (fun m => (m, at_ 11000000)) (api_expand (ViaBucket false (Replace 7))) in
  map fst tr = [Read; Exec 7; CondCommit 1] /\ mono_from 11000000 tr /\
  pending (run true (init [] 0) tr) = [] /\ recover (run true (init [] 0) tr) = [7].
Proof. vm_compute. repeat split; try reflexivity; intros H; discriminate H. Qed.

(* Sensitivity: three wrappers the code does not have.  Each forwards the same write(s) to
   the storage and each breaks the statement: the first storage step of the call flushes
   (and so restarts the ten seconds), the write that follows it stays in the open
   transaction when the call returns. *)
Example C18_api_wrapper_that_reads_first_breaks_it :
  let at_ t := mkClk t t t in
  let st ms := run true (init [] 0) (map (fun m => (m, at_ 11000000)) ms) in
  pending (st (replace_after_lookup true 7)) = [7] /\
  pending (st (replace_by_delete_insert true 7 8)) = [8] /\
  pending (st (insert_in_two_pieces true [1; 2] [3; 4])) = [3; 4] /\
  pending (st (api_expand (ViaBucket true (Replace 7)))) = [] /\
  pending (st (api_expand (ViaBucket true (InsertMany [] [1; 2; 3; 4])))) = [] /\
  pending (st (api_expand (ViaBucket false (InsertMany [5; 6] [1; 2])))) = [].
Proof. vm_compute. repeat split; reflexivity. Qed.
