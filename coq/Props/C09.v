(* C09 — interval intersection and union of event lists are exact.
   Property statements only: each theorem is closed by [exact <lemma>] and followed by
   Print Assumptions.  Models: Model/Timeslot.v (third-party Timeslot, modelled not trusted),
   Model/Intersect.v; proofs: Proofs/IntersectSlot.v, IntersectSort.v, IntersectProofs.v,
   IntersectUnion.v, IntersectMeasure.v.

   Vocabulary (defined in Proofs/IntersectProofs.v, IntersectUnion.v, IntersectMeasure.v):
     covers l t        := exists e ∈ l, ts e <= t < eend e           (half-open point sets)
     aligned e         := floor_ms (ts e) = ts e                     (ms granularity; Event's setter guarantees it)
     nonoverlapping l  := 0 <= dur for every element and end_i <= start_{i+1} for neighbours
     pos_overlap e f   := max (ts e) (ts f) < min (eend e) (eend f)
     piece_event e f   := {| eid e; max starts; min ends - max starts; data e |}
     spec_events A B   := [ piece_event e f | e <- A, f <- B, pos_overlap e f ]   (row-major, one per index pair)
     pos_event o       := 0 <? dur o
     gapped l          := eend o_i < ts o_{i+1} for neighbours
     inside x o        := ts o <= ts x /\ eend x <= eend o            (closed containment)
     count P lo n      := number of instants t in [lo, lo+n) with P t  (measure in µs)
     wchain l          := 0 <= dur everywhere and, for every a before b in l, ts a <= ts b and ~ pos_overlap a b
                          (Proofs/IntersectWide.v: sorted, no two events overlap for a positive time)
   The domain of the intersection theorems is stated on the function's own stable sort of each
   input (inputs come in any order). *)
From AwVerif Require Import Base.Prelude Model.Timeslot Model.Intersect
  Proofs.IntersectSlot Proofs.IntersectSort Proofs.IntersectProofs
  Proofs.IntersectUnion Proofs.IntersectMeasure Proofs.IntersectWide Proofs.IntersectIndex.
From Coq Require Import Sorting.Sorted.

(* ------------------------------------------------------------------------------------ *)
(* Timeslot (third party), for all slots, negative durations included                    *)

Theorem C09_timeslot_intersection_value : forall p q r,
  slot_intersection p q = Some r ->
  tstart r = Z.max (tstart p) (tstart q) /\ tend r = Z.min (tend p) (tend q).
Proof. exact intersection_value. Qed.
Print Assumptions C09_timeslot_intersection_value.

Theorem C09_timeslot_intersection_pos : forall p q,
  Z.max (tstart p) (tstart q) < Z.min (tend p) (tend q) ->
  exists r, slot_intersection p q = Some r.
Proof. exact intersection_pos. Qed.
Print Assumptions C09_timeslot_intersection_pos.

Theorem C09_timeslot_gap_none_iff : forall p q,
  slot_gap p q = None <-> (tstart q <= tend p /\ tstart p <= tend q).
Proof. exact gap_none_iff. Qed.
Print Assumptions C09_timeslot_gap_none_iff.

(* The branch of _intersecting_eventpairs that logs "Should be unreachable" is dead for ALL
   slots: no intersection means one slot ends no later than the other starts ... *)
Theorem C09_unreachable_branch_dead : forall p q,
  slot_intersection p q = None -> tend p <= tstart q \/ tend q <= tstart p.
Proof. exact intersection_none. Qed.
Print Assumptions C09_unreachable_branch_dead.

(* ... so on any two lists the loop only ever takes the four live branches (codes 1-4 of
   Model.Intersect.sweep_branches; 5 = unreachable branch, 9 = out of fuel). *)
Theorem C09_sweep_only_live_branches : forall fuel l1 l2,
  (length l1 + length l2 <= fuel)%nat ->
  Forall (fun c => c = 1 \/ c = 2 \/ c = 3 \/ c = 4) (sweep_branches fuel l1 l2).
Proof. exact sweep_branches_live. Qed.
Print Assumptions C09_sweep_only_live_branches.

(* ------------------------------------------------------------------------------------ *)
(* fuel / totality, all inputs                                                           *)

Theorem C09_fuel_enough : forall fuel l1 l2,
  (length l1 + length l2 <= fuel)%nat -> exists out, sweep fuel l1 l2 = Ok out.
Proof. exact sweep_fuel. Qed.
Print Assumptions C09_fuel_enough.

Theorem C09_intersect_total : forall a b, exists out, filter_period_intersect a b = Ok out.
Proof. exact fpi_total. Qed.
Print Assumptions C09_intersect_total.

Theorem C09_union_total : forall empty a b, exists out, period_union empty a b = Ok out.
Proof. exact pu_total. Qed.
Print Assumptions C09_union_total.

(* Nothing is visited twice, for ALL inputs (overlapping lists included): the yields of the
   generator, as filter_period_intersect runs it, are the events at index pairs (e1_i, e2_i)
   whose sum strictly increases along the output -- so no index pair is emitted twice. *)
Theorem C09_sweep_no_revisit : forall l1 l2 out,
  sweep (length l1 + length l2) l1 l2 = Ok out ->
  exists ixs : list (nat * nat * (event * event * timeslot)),
    out = map snd ixs /\
    Forall (fun p => let '(i, j, (e, f, _)) := p in
              nth_error l1 i = Some e /\ nth_error l2 j = Some f) ixs /\
    StronglySorted (fun p q => (ix_sum p < ix_sum q)%nat) ixs.
Proof. exact sweep_no_revisit. Qed.
Print Assumptions C09_sweep_no_revisit.

(* ------------------------------------------------------------------------------------ *)
(* filter_period_intersect                                                               *)

(* Sound, for ALL inputs at ms granularity (overlapping lists too) and every output event,
   zero-length ones included: it is e ∩ f of some event e and filter event f, carries e's id
   and data, lies inside both. *)
Theorem C09_intersect_sound : forall a b out o,
  Forall aligned a -> Forall aligned b ->
  filter_period_intersect a b = Ok out -> In o out ->
  exists e f, In e a /\ In f b /\
    eid o = eid e /\ data o = data e /\
    ts o = Z.max (ts e) (ts f) /\ eend o = Z.min (eend e) (eend f) /\
    ts e <= ts o /\ ts f <= ts o /\ eend o <= eend e /\ eend o <= eend f /\
    (0 <= dur e -> 0 <= dur f -> 0 <= dur o).
Proof. exact fpi_sound. Qed.
Print Assumptions C09_intersect_sound.

(* Complete: nothing that overlaps for a positive time is missing. *)
Theorem C09_intersect_complete : forall a b out e f,
  nonoverlapping (sort_by ts a) -> nonoverlapping (sort_by ts b) ->
  Forall aligned a -> Forall aligned b ->
  filter_period_intersect a b = Ok out ->
  In e a -> In f b -> pos_overlap e f ->
  In (piece_event e f) out.
Proof. exact fpi_complete. Qed.
Print Assumptions C09_intersect_complete.

(* Exact / no duplicate: the positive-length outputs are, as a list and in output order,
   exactly one piece per positively overlapping pair of positions (sound + complete +
   nothing twice in one equation; "zero-length pieces aside" = the filter). *)
Theorem C09_intersect_no_dup : forall a b out,
  nonoverlapping (sort_by ts a) -> nonoverlapping (sort_by ts b) ->
  Forall aligned a -> Forall aligned b ->
  filter_period_intersect a b = Ok out ->
  filter pos_event out = spec_events (sort_by ts a) (sort_by ts b).
Proof. exact fpi_exact. Qed.
Print Assumptions C09_intersect_no_dup.

(* The output itself is free of internal overlap (sorted, end_i <= start_{i+1}): no instant
   is counted twice. *)
Theorem C09_intersect_output_nonoverlapping : forall a b out,
  nonoverlapping (sort_by ts a) -> nonoverlapping (sort_by ts b) ->
  Forall aligned a -> Forall aligned b ->
  filter_period_intersect a b = Ok out ->
  nonoverlapping out.
Proof. exact fpi_out_chain. Qed.
Print Assumptions C09_intersect_output_nonoverlapping.

(* As point sets: the output covers exactly the common time. *)
Theorem C09_intersect_covers_exactly : forall a b out t,
  nonoverlapping (sort_by ts a) -> nonoverlapping (sort_by ts b) ->
  Forall aligned a -> Forall aligned b ->
  filter_period_intersect a b = Ok out ->
  (covers out t <-> covers a t /\ covers b t).
Proof. exact fpi_covers. Qed.
Print Assumptions C09_intersect_covers_exactly.

(* Total duration = measure of the common time (instants counted in any window that
   contains the events). *)
Theorem C09_intersect_measure : forall a b out lo n,
  nonoverlapping (sort_by ts a) -> nonoverlapping (sort_by ts b) ->
  Forall aligned a -> Forall aligned b ->
  filter_period_intersect a b = Ok out ->
  (forall e, In e a -> lo <= ts e /\ eend e <= lo + Z.of_nat n) ->
  sumZ (map dur out) = count (fun t => coversb a t && coversb b t) lo n.
Proof. exact fpi_measure. Qed.
Print Assumptions C09_intersect_measure.

(* The same exactness on a wider domain than DESIGN A.1's: after the function's own sort the
   lists are sorted by start, durations are non-negative and no two events of a list overlap
   for a POSITIVE time -- a zero-length event may sit inside, or share its start in either
   order with, a positive-length event of its own list. *)
Theorem C09_intersect_no_dup_wide : forall a b out,
  wchain (sort_by ts a) -> wchain (sort_by ts b) ->
  Forall aligned a -> Forall aligned b ->
  filter_period_intersect a b = Ok out ->
  filter pos_event out = spec_events (sort_by ts a) (sort_by ts b).
Proof. exact fpi_exact_wide. Qed.
Print Assumptions C09_intersect_no_dup_wide.

Theorem C09_intersect_complete_wide : forall a b out e f,
  wchain (sort_by ts a) -> wchain (sort_by ts b) ->
  Forall aligned a -> Forall aligned b ->
  filter_period_intersect a b = Ok out ->
  In e a -> In f b -> pos_overlap e f ->
  In (piece_event e f) out.
Proof. exact fpi_complete_wide. Qed.
Print Assumptions C09_intersect_complete_wide.

(* total duration = sum of the overlap lengths over the positively overlapping pairs *)
Theorem C09_intersect_total_duration_wide : forall a b out,
  wchain (sort_by ts a) -> wchain (sort_by ts b) ->
  Forall aligned a -> Forall aligned b ->
  filter_period_intersect a b = Ok out ->
  sumZ (map dur out) = sumZ (map dur (spec_events (sort_by ts a) (sort_by ts b))).
Proof. exact fpi_total_duration_wide. Qed.
Print Assumptions C09_intersect_total_duration_wide.

(* the A.1 domain is inside the wide one *)
Theorem C09_domain_inclusion : forall l, nonoverlapping l -> wchain l.
Proof. exact (fun l H => chain_wchain l (nonoverlapping_chain l H)). Qed.
Print Assumptions C09_domain_inclusion.

(* ------------------------------------------------------------------------------------ *)
(* period_union: arbitrary (mutually and internally overlapping, unsorted) inputs with     *)
(* non-negative durations at ms granularity                                               *)

(* Sorted by time, consecutive outputs separated by a strictly positive gap; data-less (the
   label of {}); non-negative durations, ms-aligned. *)
Theorem C09_union_sorted_gapped : forall empty a b out,
  Forall (fun e => 0 <= dur e) (a ++ b) -> Forall aligned (a ++ b) ->
  period_union empty a b = Ok out ->
  gapped out /\ (forall o, In o out -> data o = empty /\ 0 <= dur o /\ aligned o).
Proof.
  exact (fun empty a b out Hn Ha H =>
           conj (pu_gapped empty a b Hn Ha out H)
                (fun o Ho => conj (pu_dataless empty a b out o H Ho) (pu_nonneg empty a b Hn Ha out o H Ho))).
Qed.
Print Assumptions C09_union_sorted_gapped.

(* Covers exactly the union of the inputs as half-open point sets; in addition every input
   interval -- zero-length ones included -- lies inside an output event, and every output
   starts at an input's start and ends at an input's end (so an output of zero length is an
   isolated zero-length input: that is the honest form of the zero-length clause). *)
Theorem C09_union_covers_exactly : forall empty a b out,
  Forall (fun e => 0 <= dur e) (a ++ b) -> Forall aligned (a ++ b) ->
  period_union empty a b = Ok out ->
  (forall t, covers out t <-> covers (a ++ b) t) /\
  (forall x, In x (a ++ b) -> exists o, In o out /\ inside x o) /\
  (forall o, In o out ->
     (exists x, In x (a ++ b) /\ ts o = ts x) /\ (exists y, In y (a ++ b) /\ eend o = eend y)).
Proof.
  exact (fun empty a b out Hn Ha H =>
           conj (fun t => pu_covers empty a b Hn Ha out t H)
                (conj (fun x Hx => pu_inputs_inside empty a b Hn Ha out x H Hx)
                      (fun o Ho => pu_endpoints empty a b Hn Ha out o H Ho))).
Qed.
Print Assumptions C09_union_covers_exactly.

Theorem C09_union_measure : forall empty a b out lo n,
  Forall (fun e => 0 <= dur e) (a ++ b) -> Forall aligned (a ++ b) ->
  period_union empty a b = Ok out ->
  (forall e, In e (a ++ b) -> lo <= ts e /\ eend e <= lo + Z.of_nat n) ->
  sumZ (map dur out) = count (coversb (a ++ b)) lo n.
Proof. exact pu_measure. Qed.
Print Assumptions C09_union_measure.

(* ------------------------------------------------------------------------------------ *)
(* non-vacuity                                                                           *)

(* The docstring layout of filter_period_intersect (ms units), given unsorted, with a
   zero-length filter event inside an event: both domain hypotheses hold, four
   positive pieces and one zero-length piece come out. *)
Example C09_intersect_nonvacuous :
  let e i t d x := mkEvent (Some i) (1000 * t) (1000 * d) x in
  let a := [e 2 12 8 7; e 1 2 7 5] in
  let b := [e 13 13 3 0; e 10 0 6 0; e 14 18 4 0; e 11 8 3 0; e 12 7 0 0] in
  nonoverlapping (sort_by ts a) /\ nonoverlapping (sort_by ts b) /\
  Forall aligned a /\ Forall aligned b /\
  filter_period_intersect a b
  = Ok [e 1 2 4 5; e 1 7 0 5; e 1 8 1 5; e 2 13 3 7; e 2 18 2 7].
Proof.
  cbv zeta. split; [|split; [|split; [|split]]].
  - vm_compute.
    repeat match goal with
           | |- _ /\ _ => split
           | |- True => exact I
           | |- _ -> False => let H := fresh in intro H; discriminate H
           end.
  - vm_compute.
    repeat match goal with
           | |- _ /\ _ => split
           | |- True => exact I
           | |- _ -> False => let H := fresh in intro H; discriminate H
           end.
  - repeat constructor.
  - repeat constructor.
  - vm_compute. reflexivity.
Qed.

(* The docstring layout of period_union plus an isolated zero-length event and a duplicate:
   merged events keep the first event's id, data is the empty label 99. *)
Example C09_union_nonvacuous :
  let e i t d x := mkEvent (Some i) (1000 * t) (1000 * d) x in
  let a := [e 1 16 9 5; e 2 2 7 5; e 3 30 0 5] in
  let b := [e 10 0 6 6; e 11 8 3 6; e 12 13 2 6; e 13 19 4 6; e 14 13 2 6] in
  Forall (fun e => 0 <= dur e) (a ++ b) /\ Forall aligned (a ++ b) /\
  period_union 99 a b = Ok [e 10 0 11 99; e 12 13 2 99; e 1 16 9 99; e 3 30 0 99].
Proof.
  cbv zeta. split; [|split].
  - repeat constructor; cbn; discriminate.
  - repeat constructor.
  - vm_compute. reflexivity.
Qed.

(* the measure statement is about something: the same layout in 1 µs units has 10 µs of
   common time, which is the total duration of the pieces *)
Example C09_measure_nonvacuous :
  let e i t d x := mkEvent (Some i) t d x in
  let a := [e 2 12 8 7; e 1 2 7 5] in
  let b := [e 13 13 3 0; e 10 0 6 0; e 14 18 4 0; e 11 8 3 0; e 12 7 0 0] in
  count (fun t => coversb a t && coversb b t) 0 25 = 10 /\
  (forall x, In x a -> 0 <= ts x /\ eend x <= 0 + Z.of_nat 25).
Proof.
  cbv zeta. split; [vm_compute; reflexivity|].
  intros x [<-|[<-|[]]]; vm_compute; split; intro H; discriminate H.
Qed.

(* the wide domain really is wider: a zero-length event listed after a positive one with the
   same start (the layout DESIGN A.1 leaves out) satisfies wchain but not nonoverlapping *)
Example C09_wide_nonvacuous :
  let e i t d x := mkEvent (Some i) (1000 * t) (1000 * d) x in
  let a := [e 1 0 5 5; e 2 0 0 5; e 3 3 0 5] in
  let b := [e 10 2 6 0] in
  wchain (sort_by ts a) /\ ~ nonoverlapping (sort_by ts a) /\ wchain (sort_by ts b) /\
  filter_period_intersect a b = Ok [e 1 2 3 5; e 3 3 0 5].
Proof.
  cbv zeta. split; [|split; [|split]].
  - wchain_concrete.
  - vm_compute. intros (_ & H & _). apply H. reflexivity.
  - wchain_concrete.
  - vm_compute. reflexivity.
Qed.
