(* C11 - a query means what its text says.  Property statements only: each theorem is closed by
   [exact <lemma>] and followed by Print Assumptions.  Models: Model/Query.v (the parser as it is
   in query2.py), Model/QueryRef.v (reference grammar, printer under an arbitrary layout,
   reference evaluator); proofs: Proofs/QueryRef*.v.
   PARTIAL: the round trip parse (print t) = t is proved for every layout and every well-formed
   term without dict literals (C11_parse_print_partial); for all terms including dicts the token
   scanner is proved exact (C11_parse_token_exact, C11_scanner_neutral).  The dict-entry loop, the
   statement / program level and eval = denote are not proved (statements in notes/agents/C11.md);
   they are covered by the correspondence run and the reference-evaluator oracle only. *)
From Coq Require Import String.
From AwVerif Require Import Base.Prelude Model.PyStr Model.Query Model.QueryRef
  Proofs.QueryRefStr Proofs.QueryRefScan Proofs.QueryRefToken Proofs.QueryRefParse
  Proofs.QueryRefLoops Proofs.QueryRefDict Proofs.QueryRefTerm Proofs.QueryRefProg Proofs.QueryExamples Proofs.QueryRefExamples.
Open Scope Z_scope.

(* String literals: QString.check stops exactly at the closing quote of a printed literal (any
   content not ending in a backslash: other quote, escaped quotes, brackets, commas, '=' ...),
   and QString.parse's replace / [1:-1] gives back the content. *)
Theorem C11_string_scan_exact : forall q s r, q = c_dq \/ q = c_sq -> ends_ok s = true ->
  check_string (str_txt q s ++ r) = Ok (Some (str_txt q s), r).
Proof. exact check_string_exact. Qed.
Print Assumptions C11_string_scan_exact.

Theorem C11_escape_unescape : forall q s, q = c_dq \/ q = c_sq -> ends_ok s = true ->
  parse_string (str_txt q s) = Ok s.
Proof. exact parse_string_exact. Qed.
Print Assumptions C11_escape_unescape.

(* Scanner neutrality: the bracket-counting loop of QFunction/QDict/QList.check, started outside
   quotes with count >= 1 in front of the printed text of ANY well-formed term (dicts included,
   any layout), arrives behind it in the same state without the count touching 0. *)
Theorem C11_scanner_neutral : forall lay, wf_layout lay -> forall md t, wf md t -> forall p,
  forall opn cls dg rest i tc prev, pair_ok opn cls -> 1 <= tc -> prev_not_bs prev = true ->
  exists prev', prev_not_bs prev' = true /\
    bscan opn cls dg (txt lay p t ++ rest) i tc false false prev =
    bscan opn cls dg rest (i + List.length (txt lay p t)) tc false false prev'.
Proof. exact txt_neutral. Qed.
Print Assumptions C11_scanner_neutral.

(* _parse_token on blank ++ printed term ++ whatever may follow a token returns exactly the
   term's text with the term's token type (all term kinds, any layout): nothing is swallowed,
   nothing is left over - the defect-13 statement at the scanner level. *)
Theorem C11_parse_token_exact : forall lay, wf_layout lay -> forall md t p b r,
  forallb is_space b = true -> wf md t -> sep_start r = true ->
  parse_token (b ++ txt lay p t ++ r) = Ok ((Some (kind t), txt lay p t), rstrip r).
Proof. exact parse_token_exact. Qed.
Print Assumptions C11_parse_token_exact.

(* The argument loop and the list-entry loop rebuild every element in written order. *)
Theorem C11_parse_args_exact : forall lay, wf_layout lay -> forall md ns args,
  Forall (P lay md ns) args -> Forall (wf md) args -> args <> [] ->
  forall p i b e fuel, forallb is_space b = true -> forallb is_space e = true ->
  (2 * List.length (b ++ sep_core lay (txt lay) p i args ++ e) + 2 <= fuel)%nat ->
  parse_args md ns fuel (b ++ sep_core lay (txt lay) p i args ++ e) = Ok (map (tok_of ns) args).
Proof. exact parse_args_exact. Qed.
Print Assumptions C11_parse_args_exact.

(* The dict-entry loop rebuilds every (key, value) pair in written order. *)
Theorem C11_parse_dict_exact : forall lay, wf_layout lay -> forall md ns d,
  Forall (fun e => P lay md ns (snd e)) d -> Forall (entry_wf md) d -> d <> [] ->
  forall p i b e acc fuel, forallb is_space b = true -> forallb is_space e = true ->
  keys_distinct (map (fun x => snd (fst x)) d) ->
  (forall x, In x d -> ~ In (snd (fst x)) (map fst acc)) ->
  (2 * List.length (b ++ sep_core lay (prd lay) p i d ++ e) + 2 <= fuel)%nat ->
  parse_dict md ns fuel (b ++ sep_core lay (prd lay) p i d ++ e) acc = Ok (acc ++ map (entry_tok ns) d).
Proof. exact parse_dict_exact. Qed.
Print Assumptions C11_parse_dict_exact.

(* parse (print t) = t for every layout and every well-formed term of every kind (dict literals
   included), at any nesting depth, given the fuel parse_stmt hands out. *)
Theorem C11_parse_print_term : forall lay, wf_layout lay -> forall md ns t, wf md t ->
  forall p fuel, (2 * List.length (txt lay p t) + 1 <= fuel)%nat ->
  parse_tok md ns fuel (kind t) (txt lay p t) = Ok (tok_of ns t).
Proof. exact parse_tok_exact. Qed.
Print Assumptions C11_parse_print_term.

Theorem C11_layout_irrelevant_term : forall lay1 lay2 md ns t p1 p2 f1 f2,
  wf_layout lay1 -> wf_layout lay2 -> wf md t ->
  (2 * List.length (txt lay1 p1 t) + 1 <= f1)%nat -> (2 * List.length (txt lay2 p2 t) + 1 <= f2)%nat ->
  parse_tok md ns f1 (kind t) (txt lay1 p1 t) = parse_tok md ns f2 (kind t) (txt lay2 p2 t).
Proof. exact parse_layout_irrelevant. Qed.
Print Assumptions C11_layout_irrelevant_term.

(* Statement level: after query()'s strip, parse(statement, namespace) finds the assignment's '='
   and returns the variable token and the token tree of the expression (every namespace). *)
Theorem C11_stmt_parse_exact : forall lay, wf_layout lay -> forall md ns i s, wf_stmt md s ->
  strip (stmt_txt lay i s) <> [] /\
  parse_stmt md ns (strip (stmt_txt lay i s)) = Ok (tok_of ns (TVar (fst s)), tok_of ns (snd s)).
Proof. exact stmt_parse_exact. Qed.
Print Assumptions C11_stmt_parse_exact.

(* query.split(";") cuts a printed program exactly between its statements: the pieces are the
   printed statements followed by the final blank (no ';' can occur inside a printed statement). *)
Theorem C11_split_print : forall lay, wf_layout lay -> forall md pg, wf_prog md pg ->
  split c_semi (print lay pg) = stmt_pieces lay 0 pg ++ [lay [] 0%nat].
Proof. exact split_print. Qed.
Print Assumptions C11_split_print.

(* Program level, parse phase: the statements parsed from the printed program (pieces of the
   split, stripped, empty ones skipped, each through parse() with the fuel the model hands out)
   are exactly the program's (variable, token tree of the expression) pairs, in order. *)
Theorem C11_parse_print : forall lay md ns pg, wf_layout lay -> wf_prog md pg ->
  parse_pieces md ns (split c_semi (print lay pg)) =
  map (fun s => Ok (tok_of ns (TVar (fst s)), tok_of ns (snd s))) pg.
Proof. exact parse_print_exact. Qed.
Print Assumptions C11_parse_print.

(* Non-vacuity, and the full statement on a concrete two-statement program with a list, a dict,
   a string containing a quote, a comma and a bracket, a variable and nested calls, under a
   spaced layout (blanks and line breaks at every slot) and the compact one: running the printed
   text equals the reference evaluator's value. *)
Example C11_ex_run_denote :
  ex_run_text (print ex_layout ex_prog) = ex_denote ex_prog /\
  ex_run_text (print ex_compact ex_prog) = ex_denote ex_prog /\
  ex_denote ex_prog =
    Ok (VList [VList [VInt 1; VStr (zs "a""b,)")]; VDict [(zs "k", VInt 1)]; VInt 3]).
Proof. vm_compute. repeat split. Qed.
