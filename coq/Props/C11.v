(* C11 - a query means what its text says.  Property statements only: each theorem is closed by
   [exact <lemma>] and followed by Print Assumptions.  Models: Model/Query.v (the parser and the
   interpreter as they are in query2.py / functions.py), Model/QueryRef.v (reference grammar,
   printer under an arbitrary layout, reference evaluator); proofs: Proofs/QueryRef*.v.
   Full statement: C11_run_denote (query() on the printed text of a well-formed program under any
   white-space layout = the value the program denotes, errors and body calls included) with its
   parts C11_parse_print (parse phase) and C11_eval_denote (interpret phase); C11_layout_irrelevant;
   the clauses of the property text as corollaries (C11_literal_*, C11_call_*, C11_var_recent). *)
From Coq Require Import String.
From AwVerif Require Import Base.Prelude Model.PyStr Model.Query Model.QueryRef
  Proofs.QueryRefStr Proofs.QueryRefScan Proofs.QueryRefToken Proofs.QueryRefParse
  Proofs.QueryRefLoops Proofs.QueryRefDict Proofs.QueryRefTerm Proofs.QueryRefProg Proofs.QueryRefEval
  Proofs.QueryExamples Proofs.QueryRefExamples Proofs.QueryRefEvalEx.
Open Scope Z_scope.

(* String literals: QString.check stops exactly at the closing quote of a printed literal (any
   content not ending in a backslash: other quote, escaped quotes, brackets, commas, '=' ...),
   and QString.parse's replace / [1:-1] gives back the content. *)
Theorem C11_string_scan_exact : forall q s r, q = c_dq \/ q = c_sq -> ends_ok s = true ->
  check_string (str_txt q s ++ r) = Ok (Some (str_txt q s), r).
Proof. exact check_string_exact. Qed.
Print Assumptions C11_string_scan_exact.

Theorem C11_escape_unescape : forall q s, q = c_dq \/ q = c_sq -> ends_ok s = true ->
  parse_string (str_txt q s) = Ok s.
Proof. exact parse_string_exact. Qed.
Print Assumptions C11_escape_unescape.

(* Scanner neutrality: the bracket-counting loop of QFunction/QDict/QList.check, started outside
   quotes with count >= 1 in front of the printed text of ANY well-formed term (dicts included,
   any layout), arrives behind it in the same state without the count touching 0. *)
Theorem C11_scanner_neutral : forall lay, wf_layout lay -> forall md t, wf md t -> forall p,
  forall opn cls dg rest i tc prev, pair_ok opn cls -> 1 <= tc -> prev_not_bs prev = true ->
  exists prev', prev_not_bs prev' = true /\
    bscan opn cls dg (txt lay p t ++ rest) i tc false false prev =
    bscan opn cls dg rest (i + List.length (txt lay p t)) tc false false prev'.
Proof. exact txt_neutral. Qed.
Print Assumptions C11_scanner_neutral.

(* _parse_token on blank ++ printed term ++ whatever may follow a token returns exactly the
   term's text with the term's token type (all term kinds, any layout): nothing is swallowed,
   nothing is left over - the defect-13 statement at the scanner level. *)
Theorem C11_parse_token_exact : forall lay, wf_layout lay -> forall md t p b r,
  forallb is_space b = true -> wf md t -> sep_start r = true ->
  parse_token (b ++ txt lay p t ++ r) = Ok ((Some (kind t), txt lay p t), rstrip r).
Proof. exact parse_token_exact. Qed.
Print Assumptions C11_parse_token_exact.

(* The argument loop and the list-entry loop rebuild every element in written order. *)
Theorem C11_parse_args_exact : forall lay, wf_layout lay -> forall md ns args,
  Forall (P lay md ns) args -> Forall (wf md) args -> args <> [] ->
  forall p i b e fuel, forallb is_space b = true -> forallb is_space e = true ->
  (2 * List.length (b ++ sep_core lay (txt lay) p i args ++ e) + 2 <= fuel)%nat ->
  parse_args md ns fuel (b ++ sep_core lay (txt lay) p i args ++ e) = Ok (map (tok_of ns) args).
Proof. exact parse_args_exact. Qed.
Print Assumptions C11_parse_args_exact.

(* The dict-entry loop rebuilds every (key, value) pair in written order. *)
Theorem C11_parse_dict_exact : forall lay, wf_layout lay -> forall md ns d,
  Forall (fun e => P lay md ns (snd e)) d -> Forall (entry_wf md) d -> d <> [] ->
  forall p i b e acc fuel, forallb is_space b = true -> forallb is_space e = true ->
  keys_distinct (map (fun x => snd (fst x)) d) ->
  (forall x, In x d -> ~ In (snd (fst x)) (map fst acc)) ->
  (2 * List.length (b ++ sep_core lay (prd lay) p i d ++ e) + 2 <= fuel)%nat ->
  parse_dict md ns fuel (b ++ sep_core lay (prd lay) p i d ++ e) acc = Ok (acc ++ map (entry_tok ns) d).
Proof. exact parse_dict_exact. Qed.
Print Assumptions C11_parse_dict_exact.

(* parse (print t) = t for every layout and every well-formed term of every kind (dict literals
   included), at any nesting depth, given the fuel parse_stmt hands out. *)
Theorem C11_parse_print_term : forall lay, wf_layout lay -> forall md ns t, wf md t ->
  forall p fuel, (2 * List.length (txt lay p t) + 1 <= fuel)%nat ->
  parse_tok md ns fuel (kind t) (txt lay p t) = Ok (tok_of ns t).
Proof. exact parse_tok_exact. Qed.
Print Assumptions C11_parse_print_term.

Theorem C11_layout_irrelevant_term : forall lay1 lay2 md ns t p1 p2 f1 f2,
  wf_layout lay1 -> wf_layout lay2 -> wf md t ->
  (2 * List.length (txt lay1 p1 t) + 1 <= f1)%nat -> (2 * List.length (txt lay2 p2 t) + 1 <= f2)%nat ->
  parse_tok md ns f1 (kind t) (txt lay1 p1 t) = parse_tok md ns f2 (kind t) (txt lay2 p2 t).
Proof. exact parse_layout_irrelevant. Qed.
Print Assumptions C11_layout_irrelevant_term.

(* Statement level: after query()'s strip, parse(statement, namespace) finds the assignment's '='
   and returns the variable token and the token tree of the expression (every namespace). *)
Theorem C11_stmt_parse_exact : forall lay, wf_layout lay -> forall md ns i s, wf_stmt md s ->
  strip (stmt_txt lay i s) <> [] /\
  parse_stmt md ns (strip (stmt_txt lay i s)) = Ok (tok_of ns (TVar (fst s)), tok_of ns (snd s)).
Proof. exact stmt_parse_exact. Qed.
Print Assumptions C11_stmt_parse_exact.

(* query.split(";") cuts a printed program exactly between its statements: the pieces are the
   printed statements followed by the final blank (no ';' can occur inside a printed statement). *)
Theorem C11_split_print : forall lay, wf_layout lay -> forall md pg, wf_prog md pg ->
  split c_semi (print lay pg) = stmt_pieces lay 0 pg ++ [lay [] 0%nat].
Proof. exact split_print. Qed.
Print Assumptions C11_split_print.

(* Program level, parse phase: the statements parsed from the printed program (pieces of the
   split, stripped, empty ones skipped, each through parse() with the fuel the model hands out)
   are exactly the program's (variable, token tree of the expression) pairs, in order. *)
Theorem C11_parse_print : forall lay md ns pg, wf_layout lay -> wf_prog md pg ->
  parse_pieces md ns (split c_semi (print lay pg)) =
  map (fun s => Ok (tok_of ns (TVar (fst s)), tok_of ns (snd s))) pg.
Proof. exact parse_print_exact. Qed.
Print Assumptions C11_parse_print.

(* Non-vacuity, and the full statement on a concrete two-statement program with a list, a dict,
   a string containing a quote, a comma and a bracket, a variable and nested calls, under a
   spaced layout (blanks and line breaks at every slot) and the compact one: running the printed
   text equals the reference evaluator's value. *)
Example C11_ex_run_denote :
  ex_run_text (print ex_layout ex_prog) = ex_denote ex_prog /\
  ex_run_text (print ex_compact ex_prog) = ex_denote ex_prog /\
  ex_denote ex_prog =
    Ok (VList [VList [VInt 1; VStr (zs "a""b,)")]; VDict [(zs "k", VInt 1)]; VInt 3]).
Proof. vm_compute. repeat split. Qed.

(* ------------------------------------------------------------------------------------------- *)
(* Evaluation.                                                                                   *)

(* Interpret phase: interpreting the token tree of a term in the namespace it was parsed in gives
   exactly what the reference evaluator gives - the same value, the same world afterwards (the body
   oracle is called with the same arguments in the same order), the namespace unchanged; when the
   reference evaluator fails the interpreter fails with the same error class in the same world
   (unknown variable / unknown function: InterpretError; wrong arity: InterpretError; wrong
   argument type: FunctionError; an error raised inside a body: that error, TypeError turned into
   InterpretError - all through the shared call_builtin).  Needs of well-formedness only that the
   keys of every dict literal are distinct (dkeys; implied by wf, C11_wf_dkeys). *)
Theorem C11_eval_denote : forall table W buckets body ns t, dkeys t -> forall w,
  interp table W buckets body (tok_of ns t) ns w =
  match denote table W buckets body ns t w with
  | (Ok v, w') => (Ok (v, ns), w')
  | (Err c, w') => (Err c, w')
  | (OutOfFuel, w') => (OutOfFuel, w')
  end.
Proof. exact eval_denote. Qed.
Print Assumptions C11_eval_denote.

Theorem C11_wf_dkeys : forall md t, wf md t -> dkeys t.
Proof. exact wf_dkeys. Qed.
Print Assumptions C11_wf_dkeys.

(* The property: for every white-space layout and every well-formed program (any number of
   statements, rebinding, aliasing, every term kind at any depth) query() on the printed text
   returns exactly what the program denotes - value or error class, and the world the built-in
   bodies leave behind.  Every statement is parsed in the namespace its predecessors left, so "a
   variable evaluates to its most recent assignment" is part of this equation. *)
Theorem C11_run_denote : forall table W buckets body md lay, wf_layout lay ->
  forall name starttime endtime pg, wf_prog md pg -> forall w,
  run table W buckets body md name starttime endtime (print lay pg) w =
  denote_prog table W buckets body name starttime endtime pg w.
Proof. exact run_denote. Qed.
Print Assumptions C11_run_denote.

(* The same equation at a world that logs every body call (name, actual arguments) as it happens:
   query() and the reference evaluator make the same built-in body calls in the same order. *)
Theorem C11_same_body_calls : forall table W buckets body md lay name starttime endtime pg w,
  wf_layout lay -> wf_prog md pg ->
  run table (W * call_log) (log_buckets buckets) (log_body body) md name starttime endtime (print lay pg) (w, []) =
  denote_prog table (W * call_log) (log_buckets buckets) (log_body body) name starttime endtime pg (w, []).
Proof. exact run_same_calls. Qed.
Print Assumptions C11_same_body_calls.

(* Spacing and line breaks around separators do not change the result. *)
Theorem C11_layout_irrelevant : forall table W buckets body md lay1 lay2 name starttime endtime pg,
  wf_layout lay1 -> wf_layout lay2 -> wf_prog md pg -> forall w,
  run table W buckets body md name starttime endtime (print lay1 pg) w =
  run table W buckets body md name starttime endtime (print lay2 pg) w.
Proof. exact run_layout_irrelevant. Qed.
Print Assumptions C11_layout_irrelevant.

(* The fuel the model's parser hands out always suffices on a printed program (the equation above is
   never the degenerate OutOfFuel = OutOfFuel). *)
Theorem C11_run_total : forall table W buckets body md lay name starttime endtime pg w,
  wf_layout lay -> wf_prog md pg ->
  fst (run table W buckets body md name starttime endtime (print lay pg) w) <> OutOfFuel.
Proof. exact run_print_fuel. Qed.
Print Assumptions C11_run_total.

(* ------------------------------------------------------------------------------------------- *)
(* The clauses of the property text.                                                             *)

(* Integer, string, list and dict literals evaluate to themselves at any nesting depth: a
   literal-only term denotes its own value in every namespace without any body call ... *)
Theorem C11_literal_denote : forall table W buckets body ns l w,
  denote table W buckets body ns (lit_term l) w = (Ok (lit_val l), w).
Proof. exact denote_literal. Qed.
Print Assumptions C11_literal_denote.

(* ... and a program ending in RETURN = <literal> returns it, under every layout. *)
Theorem C11_literal_run : forall table W buckets body md lay, wf_layout lay ->
  forall name starttime endtime pg l w ns1 w1, wf_prog md pg -> wf md (lit_term l) ->
  denote_stmts table W buckets body pg (initial_namespace name starttime endtime) w = (Ok ns1, w1) ->
  run table W buckets body md name starttime endtime (print lay (pg ++ [(s_RETURN, lit_term l)])) w =
  (Ok (lit_val l), w1).
Proof. exact run_literal. Qed.
Print Assumptions C11_literal_run.

(* A function call applies the named built-in to the values of all of its arguments, evaluated in
   written order (args_eval hands the world from each argument to the next); an unknown name is an
   InterpretError. *)
Theorem C11_call_denote : forall table W buckets body ns n args b w vals w1,
  find_builtin table n = Some b -> args_eval (denote table W buckets body ns) args w vals w1 ->
  denote table W buckets body ns (TCall n args) w = call_builtin W buckets body b vals w1.
Proof. exact denote_call. Qed.
Print Assumptions C11_call_denote.

Theorem C11_call_run : forall table W buckets body md lay, wf_layout lay ->
  forall name starttime endtime pg n args b w ns1 w1 vals w2, wf_prog md pg -> wf md (TCall n args) ->
  denote_stmts table W buckets body pg (initial_namespace name starttime endtime) w = (Ok ns1, w1) ->
  find_builtin table n = Some b -> args_eval (denote table W buckets body ns1) args w1 vals w2 ->
  run table W buckets body md name starttime endtime (print lay (pg ++ [(s_RETURN, TCall n args)])) w =
  call_builtin W buckets body b vals w2.
Proof. exact run_call. Qed.
Print Assumptions C11_call_run.

(* A variable evaluates to its most recent assignment:  ...; x = e; <statements that do not assign
   x>; RETURN = x;  returns the value e had when it was assigned. *)
Theorem C11_var_recent : forall table W buckets body md lay, wf_layout lay ->
  forall name starttime endtime pg x e pg2 w ns1 w1 v w2 ns3 w3,
  wf_prog md pg -> wf_stmt md (x, e) -> wf_prog md pg2 ->
  denote_stmts table W buckets body pg (initial_namespace name starttime endtime) w = (Ok ns1, w1) ->
  denote table W buckets body ns1 e w1 = (Ok v, w2) ->
  Forall (fun s : stmt => fst s <> x) pg2 ->
  denote_stmts table W buckets body pg2 (dict_set ns1 x v) w2 = (Ok ns3, w3) ->
  run table W buckets body md name starttime endtime
      (print lay (pg ++ [(x, e)] ++ pg2 ++ [(s_RETURN, TVar x)])) w = (Ok v, w3).
Proof. exact run_var_recent. Qed.
Print Assumptions C11_var_recent.

(* ------------------------------------------------------------------------------------------- *)
(* Non-vacuity of the evaluation theorems (hypotheses met by concrete programs and layouts; the
   run side obtained THROUGH the theorems, the reference side by computation).                   *)

Example C11_ex_wf : wf_layout ex_layout /\ wf_layout ex_layout2 /\ wf_layout ex_compact /\
  wf_prog 4300 ex_prog /\ wf_prog 4300 ex_rebind /\ wf 4300 (lit_term ex_lit).
Proof. exact (conj ex_layout_wf (conj ex_layout2_wf (conj ex_compact_wf (conj ex_prog_wf (conj ex_rebind_wf ex_lit_wf))))). Qed.

(* rebinding and aliasing: x = 1; x = [x, 2]; y = x; x = 3; RETURN = y  gives [1, 2] under a
   layout of tabs, CR LF and form feeds *)
Example C11_ex_rebind : ex_run_w (print ex_layout2 ex_rebind) = (Ok (VList [VInt 1; VInt 2]), 0).
Proof.
  unfold ex_run_w. rewrite (C11_run_denote _ _ _ _ _ _ ex_layout2_wf _ _ _ _ ex_rebind_wf). vm_compute. reflexivity.
Qed.

(* a nested literal returns itself *)
Example C11_ex_literal : ex_run_w (print ex_layout [(s_RETURN, lit_term ex_lit)]) =
  (Ok (VDict [(zs "a", VList [VInt 7; VDict [(zs "b", VStr (zs "it's ]}"))]]); (zs "c", VDict [])]), 0).
Proof.
  exact (C11_literal_run ex_table Z ex_buckets ex_body 4300 ex_layout ex_layout_wf (zs "n") (zs "t0") (zs "t1")
           [] ex_lit 0 _ 0 (Forall_nil _) ex_lit_wf eq_refl).
Qed.

(* written order: the call counter numbers the three body calls of the arguments 0, 1, 2 *)
Example C11_ex_order : ex_run_w (print ex_layout [(s_RETURN, TCall (zs "echo") ex_order_args)]) =
  (Ok (VList [VOpaque 0; VOpaque 1; VList [VOpaque 2]]), 3).
Proof.
  unfold ex_run_w. rewrite (C11_run_denote _ _ _ _ _ _ ex_layout_wf). vm_compute. reflexivity.
  constructor; [split; [apply wf_RETURN|exact ex_order_wf]|constructor].
Qed.

(* ... and the logged calls are limit_events([], 1), limit_events([], 2), limit_events([], 3) in this order *)
Example C11_ex_calls :
  map (fun c => (fst c, vals_of_args (snd c)))
      (snd (snd (run ex_table (Z * call_log) (log_buckets ex_buckets) (log_body ex_body) 4300 (zs "n") (zs "t0") (zs "t1")
                     (print ex_layout2 [(s_RETURN, TCall (zs "echo") ex_order_args)]) (0, [])))) =
  [(zs "limit_events", [VList []; VInt 1]); (zs "limit_events", [VList []; VInt 2]); (zs "limit_events", [VList []; VInt 3])].
Proof.
  rewrite (C11_same_body_calls _ _ _ _ _ _ _ _ _ _ _ ex_layout2_wf). vm_compute. reflexivity.
  constructor; [split; [apply wf_RETURN|exact ex_order_wf]|constructor].
Qed.

(* errors are the reference evaluator's errors: unknown variable, unknown function, wrong arity,
   wrong argument type, an exception inside a body (after one earlier body call: world 2), no RETURN *)
Example C11_ex_errors :
  ex_run_w (print ex_layout ex_err_var) = (Err InterpretError, 0) /\
  ex_run_w (print ex_layout ex_err_fn) = (Err InterpretError, 0) /\
  ex_run_w (print ex_layout ex_err_arity) = (Err InterpretError, 0) /\
  ex_run_w (print ex_layout ex_err_type) = (Err FunctionError, 0) /\
  ex_run_w (print ex_layout ex_err_body) = (Err KeyError, 2) /\
  ex_run_w (print ex_layout ex_err_noreturn) = (Err ParseError, 0).
Proof.
  destruct ex_errs_wf as (H1 & H2 & H3 & H4 & H5 & H6). unfold ex_run_w.
  rewrite !(C11_run_denote _ _ _ _ _ _ ex_layout_wf) by assumption. vm_compute. repeat split.
Qed.
