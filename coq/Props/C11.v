(* C11 - a query means what its text says.  Property statements only. *)
From Coq Require Import String.
From AwVerif Require Import Base.Prelude Model.PyStr Model.Query Model.QueryRef
  Proofs.QueryExamples Proofs.QueryRefExamples.
Open Scope Z_scope.

Example C11_ex_run_denote :
  ex_run_text (print ex_layout ex_prog) = ex_denote ex_prog /\
  ex_run_text (print ex_compact ex_prog) = ex_denote ex_prog /\
  ex_denote ex_prog =
    Ok (VList [VList [VInt 1; VStr (zs "a""b,)")]; VDict [(zs "k", VInt 1)]; VInt 3]).
Proof. vm_compute. repeat split. Qed.
