(* C01 / C13, the JSON data path: json.dumps -> TEXT -> json.loads inside the model (Model/Json.v).
   Statements only; proofs in Proofs/Json{Str,Num,Fuel,Roundtrip}.v.
   Domain `wf v`: a Python value that is JSON data (None, bool, int, float, str, list, dict with str
   keys, distinct), every int of at most 4300 decimal digits (beyond: json.dumps raises ValueError,
   C01_json_int_digit_limit), floats as the tokens floatstr writes (float(repr(x)) == x is CPython's
   guarantee, outside the model), every str a sequence of code points 0..0x10FFFF in which no high
   surrogate is directly followed by a low surrogate (C01_json_surrogate_pair_refuted shows that this
   restriction is necessary). *)
From AwVerif Require Import Base.Prelude Model.Json Model.JsonEvent Proofs.JsonStr Proofs.JsonNum Proofs.JsonFuel Proofs.JsonRoundtrip Proofs.JsonEvent.
From Coq Require Import Ascii.
Open Scope Z_scope.

(* what the SQL back ends do with event data: json.loads(json.dumps(data)) is data, structurally
   (key order, int / float / bool apart, every code point of every string) *)
Theorem C01_json_roundtrip : forall v, wf v -> loads (dumps_text v) = Ok v.
Proof. exact loads_dumps_text. Qed.
Print Assumptions C01_json_roundtrip.

(* json.dumps does not raise inside the domain, and the composition is the identity *)
Theorem C01_json_dumps_total : forall v, wf v -> dumps v = Ok (dumps_text v).
Proof. exact dumps_wf. Qed.
Print Assumptions C01_json_dumps_total.

Theorem C01_json_roundtrip_dumps_loads : forall v, wf v -> bind (dumps v) loads = Ok v.
Proof. exact json_roundtrip. Qed.
Print Assumptions C01_json_roundtrip_dumps_loads.

(* distinct values have distinct texts: equality of JSON data can be decided on the stored text *)
Theorem C01_json_dumps_injective : forall v1 v2, wf v1 -> wf v2 -> dumps v1 = dumps v2 -> v1 = v2.
Proof. exact dumps_injective. Qed.
Print Assumptions C01_json_dumps_injective.

(* the text is printable ASCII (no control character, nothing beyond 0x7e): what SQLite stores in the
   TEXT cell does not depend on the database encoding *)
Theorem C01_json_text_ascii : forall v, wf v -> Forall (fun c => 32 <= c <= 126) (dumps_text v).
Proof. exact dumps_text_printable. Qed.
Print Assumptions C01_json_text_ascii.

(* dict keys come back in insertion order *)
Theorem C01_json_key_order : forall kvs, wf (JDict kvs) ->
  exists kvs', loads (dumps_text (JDict kvs)) = Ok (JDict kvs') /\ map fst kvs' = map fst kvs.
Proof. intros kvs H. exists kvs. split; [exact (loads_dumps_text _ H)|reflexivity]. Qed.
Print Assumptions C01_json_key_order.

(* strings: scanstring reads back what py_encode_basestring_ascii wrote, whatever follows the closing quote *)
Theorem C01_json_string_roundtrip : forall s rest, str_ok s = true ->
  scanstring (escape_str s ++ c_dq :: rest) = Ok (s, rest).
Proof. intros s rest H. exact (scanstring_escape s H rest). Qed.
Print Assumptions C01_json_string_roundtrip.

(* ints: int(int.__repr__(n)) = n, the repr is the whole integer group of NUMBER_RE *)
Theorem C01_json_int_roundtrip : forall n, parse_int (int_repr n) = n.
Proof. exact parse_int_repr. Qed.
Print Assumptions C01_json_int_roundtrip.

(* the fuel of the model's scanner: loads never runs out of it, on any text, and a result found with
   any fuel is the result loads computes *)
Theorem C01_json_loads_never_out_of_fuel : forall s, loads s <> OutOfFuel.
Proof. exact loads_never_out_of_fuel. Qed.
Print Assumptions C01_json_loads_never_out_of_fuel.

Theorem C01_json_fuel_independent : forall f s x, scan_value f s = Ok x -> scan_value (loads_fuel s) s = Ok x.
Proof. exact scan_value_any_fuel. Qed.
Print Assumptions C01_json_fuel_independent.

(* every scan consumes text (so the fuel bound is a bound on the text) *)
Theorem C01_json_scan_consumes : forall f s v r, scan_value f s = Ok (v, r) -> (length r < length s)%nat.
Proof. intros f. exact (proj1 (consumes f)). Qed.
Print Assumptions C01_json_scan_consumes.

(* dict(pairs) on distinct keys is the identity *)
Theorem C01_json_dict_of_distinct_pairs : forall kvs, keys_distinct (map fst kvs) = true -> dict_of_pairs kvs = kvs.
Proof. exact dict_of_pairs_distinct. Qed.
Print Assumptions C01_json_dict_of_distinct_pairs.

(* --- the boundary of the domain ------------------------------------------------------------------ *)
(* A Python str may hold the two lone surrogates U+D83D U+DE00.  dumps escapes them as two \uXXXX
   escapes; scanstring joins such a pair: ONE code point U+1F600 comes back.  So the restriction on
   adjacent surrogates in `wf` cannot be dropped (memory.py deep-copies and returns the two code points:
   the back ends differ on such a str; it is not Unicode text - it cannot be encoded as UTF-8). *)
Theorem C01_json_surrogate_pair_refuted :
  exists s s', Forall (fun c => 0 <= c <= 1114111) s /\ loads (dumps_text (JStr s)) = Ok (JStr s') /\ s' <> s.
Proof. exists [55357; 56832], [128512]. split; [repeat constructor; lia|]. split; [vm_compute; reflexivity|discriminate]. Qed.
Print Assumptions C01_json_surrogate_pair_refuted.

(* every other arrangement of lone surrogates is inside the domain *)
Example C01_json_lone_surrogates :
  wf (JStr [56832; 55357; 120; 55357; 55357; 120; 56832; 56832]) /\
  loads (dumps_text (JStr [56832; 55357; 120; 55357])) = Ok (JStr [56832; 55357; 120; 55357]).
Proof. split; vm_compute; reflexivity. Qed.

(* ints beyond 4300 digits: json.dumps / json.loads raise ValueError - C01_json_int_digit_limit in Props/C01JsonLimit.v
   (evaluated by the kernel's virtual machine; kept in a file of its own because coqchk has no virtual machine) *)

(* duplicate keys in a text: the last value, at the position of the first occurrence (dict(pairs)) *)
Example C01_json_duplicate_keys :
  loads [123; 34; 97; 34; 58; 49; 44; 34; 98; 34; 58; 50; 44; 34; 97; 34; 58; 51; 125]
  = Ok (JDict [([97], JInt 3); ([98], JInt 2)]).
Proof. vm_compute. reflexivity. Qed.

(* white space layouts, upper-case escapes, exponent spellings *)
Example C01_json_layouts :
  (* { "k" : [ 1 , 2.50E+3 , "\u00E9\/" ] }  with tab / newline / carriage return *)
  loads [32; 123; 9; 34; 107; 34; 10; 58; 13; 91; 32; 49; 32; 44; 50; 46; 53; 48; 69; 43; 51; 44; 32; 34; 92; 117; 48; 48; 69; 57; 92; 47; 34; 93; 125; 10]
  = Ok (JDict [([107], JList [JInt 1; JFloat [50; 46; 53; 48; 69; 43; 51]; JStr [233; 47]])]).
Proof. vm_compute. reflexivity. Qed.

(* malformed texts: JSONDecodeError (ParseError in the model) *)
Example C01_json_malformed :
  loads [91; 49; 44; 93] = Err ParseError /\            (* [1,] *)
  loads [48; 49] = Err ParseError /\                    (* 01 *)
  loads [34; 9; 34] = Err ParseError /\                 (* a raw tab inside a string *)
  loads [34; 92; 117; 43; 49; 50; 51; 34] = Err ParseError /\   (* "\u+123" *)
  loads [65279; 49] = Err ParseError /\                 (* BOM *)
  loads [49; 12] = Err ParseError /\                    (* form feed is not white space *)
  loads [] = Err ParseError.
Proof. split; [|split; [|split; [|split; [|split; [|split]]]]]; vm_compute; reflexivity. Qed.

(* --- non-vacuity: a nested value with quotes, backslashes, every short escape, NUL, DEL, non-ASCII BMP,
   an astral code point, lone surrogates, big ints, float tokens incl. NaN / -Infinity / -0.0, empty containers *)
Definition ex_value : jvalue :=
  JDict [([97; 112; 112], JStr [70; 105; 114; 101; 34; 102; 111; 120; 92]); ([116; 105; 116; 108; 101], JStr [99; 97; 102; 233; 32; 26085; 26412; 32; 128512]); ([99; 116; 108], JStr [0; 31; 10; 9; 13; 8; 12; 127; 47]); ([108; 111; 110; 101], JStr [55296; 120; 56320]); ([110], JList [JInt (0); JInt (-1); JInt (1000000000000000000000000000000); JInt (-9223372036854775808); JFloat [49; 46; 53; 101; 45; 48; 55]; JFloat [49; 101; 43; 50; 50]; JFloat [45; 48; 46; 48]; JFloat [78; 97; 78]; JFloat [45; 73; 110; 102; 105; 110; 105; 116; 121]]); ([101], JDict []); ([108], JList []); ([], JList [JList [JDict [([107], JNull)]]; JBool true; JBool false])].
(* {''app'': ''Fire\''fox\\'', ''title'': ''caf\u00e9 \u65e5\u672c \ud83d\ude00'', ''ctl'': ''\u0000\u001f\n\t\r\b\f\u007f/'', ''lone'': ''\ud800x\udc00'', ''n'': [0, -1, 1000000000000000000000000000000, -9223372036854775808, 1.5e-07, 1e+22, -0.0, NaN, -Infinity], ''e'': {}, ''l'': [], '''': [[{''k'': null}], true, false]} *)
Definition ex_text : list Z :=
  [123; 34; 97; 112; 112; 34; 58; 32; 34; 70; 105; 114; 101; 92; 34; 102; 111; 120; 92; 92; 34; 44; 32; 34; 116; 105; 116; 108; 101; 34; 58; 32; 34; 99; 97; 102; 92; 117; 48; 48; 101; 57; 32; 92; 117; 54; 53; 101; 53; 92; 117; 54; 55; 50; 99; 32; 92; 117; 100; 56; 51; 100; 92; 117; 100; 101; 48; 48; 34; 44; 32; 34; 99; 116; 108; 34; 58; 32; 34; 92; 117; 48; 48; 48; 48; 92; 117; 48; 48; 49; 102; 92; 110; 92; 116; 92; 114; 92; 98; 92; 102; 92; 117; 48; 48; 55; 102; 47; 34; 44; 32; 34; 108; 111; 110; 101; 34; 58; 32; 34; 92; 117; 100; 56; 48; 48; 120; 92; 117; 100; 99; 48; 48; 34; 44; 32; 34; 110; 34; 58; 32; 91; 48; 44; 32; 45; 49; 44; 32; 49; 48; 48; 48; 48; 48; 48; 48; 48; 48; 48; 48; 48; 48; 48; 48; 48; 48; 48; 48; 48; 48; 48; 48; 48; 48; 48; 48; 48; 48; 48; 44; 32; 45; 57; 50; 50; 51; 51; 55; 50; 48; 51; 54; 56; 53; 52; 55; 55; 53; 56; 48; 56; 44; 32; 49; 46; 53; 101; 45; 48; 55; 44; 32; 49; 101; 43; 50; 50; 44; 32; 45; 48; 46; 48; 44; 32; 78; 97; 78; 44; 32; 45; 73; 110; 102; 105; 110; 105; 116; 121; 93; 44; 32; 34; 101; 34; 58; 32; 123; 125; 44; 32; 34; 108; 34; 58; 32; 91; 93; 44; 32; 34; 34; 58; 32; 91; 91; 123; 34; 107; 34; 58; 32; 110; 117; 108; 108; 125; 93; 44; 32; 116; 114; 117; 101; 44; 32; 102; 97; 108; 115; 101; 93; 125].

Example C01_json_nonvacuous_wf : wf ex_value.
Proof. vm_compute. reflexivity. Qed.
Example C01_json_nonvacuous_dumps : dumps ex_value = Ok ex_text.
Proof. vm_compute. reflexivity. Qed.
Example C01_json_nonvacuous_loads : loads ex_text = Ok ex_value.
Proof. vm_compute. reflexivity. Qed.
Example C01_json_nonvacuous_ascii : forallb (fun c => (32 <=? c) && (c <=? 126)) ex_text = true.
Proof. vm_compute. reflexivity. Qed.

(* --- C13: the JSON form of an Event (to_json_dict / to_json_str, Model/JsonEvent.v) -------------------
   {"id": .., "timestamp": isoformat text, "duration": total_seconds(), "data": data} is inside the
   domain whatever the timestamp text is (any [list ascii], in particular j_ts of Model/EventModel.v's
   to_json), for an id that is None or an int of at most 4300 digits, the token floatstr writes for the
   duration, and data of the domain: json.loads(e.to_json_str()) is the dict to_json_dict built, member
   by member, in order.  Composed with C13_json_roundtrip (Props/C13.v: Event applied to that dict is e
   again) this is the JSON clause of C13 down to the text; what stays outside is float(repr(x)) == x for
   the duration. *)
Theorem C13_json_event_form_roundtrip : forall i ts tok data,
  match i with Some n => int_ok n = true | None => True end ->
  float_tok_ok tok = true -> wf data ->
  loads (dumps_text (event_json_form i ts tok data)) = Ok (event_json_form i ts tok data).
Proof. exact event_json_form_roundtrip. Qed.
Print Assumptions C13_json_event_form_roundtrip.

(* the text that Event(id=7, timestamp=2020-09-13T12:26:40.123Z, duration=1.000001 s, data with a quote, a backslash,
   e-acute and U+1F600).to_json_str() returns, written and read by the model *)
Example C13_json_event_form_example :
  let data := JDict [([97; 112; 112], JStr [70; 105; 114; 101; 34; 102; 111; 120; 92]);
                     ([116; 105; 116; 108; 101], JStr [99; 97; 102; 233; 32; 128512])] in
  let ts := ["2"%char; "0"%char; "2"%char; "0"%char; "-"%char; "0"%char; "9"%char; "-"%char; "1"%char; "3"%char; "T"%char; "1"%char; "2"%char; ":"%char; "2"%char; "6"%char; ":"%char; "4"%char; "0"%char; "."%char; "1"%char; "2"%char; "3"%char; "0"%char; "0"%char; "0"%char; "+"%char; "0"%char; "0"%char; ":"%char; "0"%char; "0"%char] in
  dumps (event_json_form (Some 7) ts [49; 46; 48; 48; 48; 48; 48; 49] data) = Ok [123; 34; 105; 100; 34; 58; 32; 55; 44; 32; 34; 116; 105; 109; 101; 115; 116; 97; 109; 112; 34; 58; 32; 34; 50; 48; 50; 48; 45; 48; 57; 45; 49; 51; 84; 49; 50; 58; 50; 54; 58; 52; 48; 46; 49; 50; 51; 48; 48; 48; 43; 48; 48; 58; 48; 48; 34; 44; 32; 34; 100; 117; 114; 97; 116; 105; 111; 110; 34; 58; 32; 49; 46; 48; 48; 48; 48; 48; 49; 44; 32; 34; 100; 97; 116; 97; 34; 58; 32; 123; 34; 97; 112; 112; 34; 58; 32; 34; 70; 105; 114; 101; 92; 34; 102; 111; 120; 92; 92; 34; 44; 32; 34; 116; 105; 116; 108; 101; 34; 58; 32; 34; 99; 97; 102; 92; 117; 48; 48; 101; 57; 32; 92; 117; 100; 56; 51; 100; 92; 117; 100; 101; 48; 48; 34; 125; 125] /\
  loads [123; 34; 105; 100; 34; 58; 32; 55; 44; 32; 34; 116; 105; 109; 101; 115; 116; 97; 109; 112; 34; 58; 32; 34; 50; 48; 50; 48; 45; 48; 57; 45; 49; 51; 84; 49; 50; 58; 50; 54; 58; 52; 48; 46; 49; 50; 51; 48; 48; 48; 43; 48; 48; 58; 48; 48; 34; 44; 32; 34; 100; 117; 114; 97; 116; 105; 111; 110; 34; 58; 32; 49; 46; 48; 48; 48; 48; 48; 49; 44; 32; 34; 100; 97; 116; 97; 34; 58; 32; 123; 34; 97; 112; 112; 34; 58; 32; 34; 70; 105; 114; 101; 92; 34; 102; 111; 120; 92; 92; 34; 44; 32; 34; 116; 105; 116; 108; 101; 34; 58; 32; 34; 99; 97; 102; 92; 117; 48; 48; 101; 57; 32; 92; 117; 100; 56; 51; 100; 92; 117; 100; 101; 48; 48; 34; 125; 125] = Ok (event_json_form (Some 7) ts [49; 46; 48; 48; 48; 48; 48; 49] data).
Proof. split; vm_compute; reflexivity. Qed.
