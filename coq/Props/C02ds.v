(* C02 through the public API (round 2).  Property statements only.
   The histories of C02 issued THROUGH aw_datastore.Datastore / Bucket (Model/Datastore.v; which
   public call stands for which operation: Model/DatastoreApi.v `api_call` - Bucket.insert(Event)
   for the single insert, Bucket.insert(list) for the bulk call whatever the length of the list,
   Bucket.replace / replace_last / delete / get / get_by_id / get_eventcount / metadata, and the
   Datastore's create_bucket (storage call, then self[bucket_id]) / update_bucket / delete_bucket
   / buckets): each back end refines the reference list model of Model/StoreSpec.v through this
   layer too, call by call and over all histories that meet the quantifier's side condition
   (`pre`, as in Props/C02.v; sqlite: the domain invariant sq_Dom / op_dom as there).
   Proofs: Proofs/StoreC02Ds.v (generic in the back end: a Section over step / abstraction /
   invariant with the refinement and invariance lemmas of Props/C02.v, C04.v as hypotheses). *)
From AwVerif Require Import Base.Prelude Model.StoreBase Model.MemStore Model.SqliteStore
  Model.PeeweeStore Model.StoreSpec Model.Datastore Model.DatastoreApi
  Proofs.StoreMemProofs Proofs.StoreSqliteProofs Proofs.StoreSqliteRefine Proofs.StorePeeweeProofs
  Proofs.StorePeeweeRefine Proofs.StoreC02Ds.

(* --- one call: it returns (does not raise), is a step of the reference model between the
       abstractions of the storage underneath, and keeps the invariant --- *)
Theorem C02ds_mem_refines : forall d o, mem_Inv (ds_store d) -> pre (ds_store d) o ->
  exists r, snd (api_step mem_step d o) = Ok r /\
            spec_step (ds_store d) o (ds_store (fst (api_step mem_step d o))) (api_out r) /\
            mem_Inv (ds_store (fst (api_step mem_step d o))).
Proof. exact mem_api_refines. Qed.
Print Assumptions C02ds_mem_refines.

Theorem C02ds_sqlite_refines : forall d o, sq_Inv (ds_store d) -> sq_Dom (ds_store d) -> op_dom o ->
  pre (sq_abs (ds_store d)) o ->
  exists r, snd (api_step sq_step d o) = Ok r /\
            spec_step (sq_abs (ds_store d)) o (sq_abs (ds_store (fst (api_step sq_step d o)))) (api_out r) /\
            sq_Inv (ds_store (fst (api_step sq_step d o))) /\ sq_Dom (ds_store (fst (api_step sq_step d o))).
Proof. exact sq_api_refines. Qed.
Print Assumptions C02ds_sqlite_refines.

Theorem C02ds_peewee_refines : forall d o, pw_Inv (ds_store d) -> pre (pw_abs (ds_store d)) o ->
  exists r, snd (api_step pw_step d o) = Ok r /\
            spec_step (pw_abs (ds_store d)) o (pw_abs (ds_store (fst (api_step pw_step d o)))) (api_out r) /\
            pw_Inv (ds_store (fst (api_step pw_step d o))).
Proof. exact pw_api_refines. Qed.
Print Assumptions C02ds_peewee_refines.

(* --- all histories (api_hist_ok: every call meets `pre` on the state it is issued in) --- *)
Theorem C02ds_mem_refines_histories : forall h d, mem_Inv (ds_store d) ->
  api_hist_ok mem_step (fun c => c) all_ops d h ->
  spec_run (ds_store d) h (ds_store (api_run mem_step d h)) /\ mem_Inv (ds_store (api_run mem_step d h)).
Proof. exact mem_api_refines_run. Qed.
Print Assumptions C02ds_mem_refines_histories.

Theorem C02ds_sqlite_refines_histories : forall h d, sq_Inv (ds_store d) -> sq_Dom (ds_store d) ->
  api_hist_ok sq_step sq_abs op_dom d h ->
  spec_run (sq_abs (ds_store d)) h (sq_abs (ds_store (api_run sq_step d h))) /\
  sq_InvDom (ds_store (api_run sq_step d h)).
Proof. exact sq_api_refines_run. Qed.
Print Assumptions C02ds_sqlite_refines_histories.

Theorem C02ds_peewee_refines_histories : forall h d, pw_Inv (ds_store d) ->
  api_hist_ok pw_step pw_abs all_ops d h ->
  spec_run (pw_abs (ds_store d)) h (pw_abs (ds_store (api_run pw_step d h))) /\
  pw_Inv (ds_store (api_run pw_step d h)).
Proof. exact pw_api_refines_run. Qed.
Print Assumptions C02ds_peewee_refines_histories.

(* --- the bulk call is the bulk operation for EVERY list (empty, one element, many) and the
       single call the single insert, over any back end --- *)
Theorem C02ds_bulk_call_is_bulk_op : forall {S} (step : S -> op -> S * res out) d b es,
  api_step step d (InsertMany b es) = ds_call step d (InsertMany b es).
Proof. exact @api_bulk_is_bulk. Qed.
Print Assumptions C02ds_bulk_call_is_bulk_op.

Theorem C02ds_single_call_is_single_op : forall {S} (step : S -> op -> S * res out) d b e,
  api_step step d (InsertOne b e) = ds_call step d (InsertOne b e).
Proof. exact @api_single_is_single. Qed.
Print Assumptions C02ds_single_call_is_single_op.

(* non-vacuity: a history through the public API that meets the side condition on sqlite, with a
   one-element bulk upsert, a one-element bulk insert, an empty bulk call, replace_last / replace
   whose event carries an id of its own *)
Example C02ds_nonvacuous_history :
  let m := mkMeta 1 1 1 0 None 0 in
  api_hist_ok sq_step sq_abs op_dom (ds_init sq_init)
    [CreateBucket 1 m; CreateBucket 2 m; InsertOne 1 (mkEvent None 5 1 1); InsertOne 1 (mkEvent None 6 0 2);
     InsertMany 1 [mkEvent (Some 1) 7 0 4]; InsertMany 1 [mkEvent None 5 2 3]; InsertMany 1 [];
     GetEvents 1 1 None None; ReplaceLast 1 (mkEvent (Some 2) 7 3 5);
     Replace 1 2 (mkEvent (Some 3) 8 0 6); GetEventCount 1 None None].
Proof. exact api_nonvacuous_history. Qed.

(* the one-element bulk upsert of that history rewrites the addressed event and adds no row *)
Example C02ds_one_element_upsert :
  let m := mkMeta 1 1 1 0 None 0 in
  let d := api_run sq_step (ds_init sq_init)
             [CreateBucket 1 m; InsertOne 1 (mkEvent None 5 1 1); InsertOne 1 (mkEvent None 6 0 2);
              InsertMany 1 [mkEvent (Some 1) 7 0 4]] in
  option_map snd (sq_view (ds_store d) 1) = Some [mkEvent (Some 1) 7 0 4; mkEvent (Some 2) 6 0 2].
Proof. vm_compute. reflexivity. Qed.
