(* C08 — heartbeat merging is the pulsetime hull rule; reduction is a normal form.
   Property statements only: each theorem is closed by [exact <lemma>] and followed by
   Print Assumptions.  Models: Model/Heartbeat.v; proofs: Proofs/HeartbeatProofs.v. *)
From AwVerif Require Import Base.Prelude Model.Heartbeat Proofs.HeartbeatProofs.

(* Two events merge iff data equal, second starts within [start l, end l + pulsetime],
   and the first's duration is not negative. *)
Theorem C08_merge_iff : forall l h p,
  (exists m, heartbeat_merge l h p = Some m) <->
  (data l = data h /\ ts l <= ts h /\ ts h <= ts l + dur l + p /\ 0 <= dur l).
Proof. exact merge_some_iff. Qed.
Print Assumptions C08_merge_iff.

(* The merged event keeps the first's id, start and data and ends at the later end;
   merging never shortens an event. *)
Theorem C08_merge_hull : forall l h p m,
  heartbeat_merge l h p = Some m ->
  eid m = eid l /\ ts m = ts l /\ data m = data l /\
  eend m = Z.max (eend l) (eend h) /\ dur l <= dur m.
Proof. exact merge_hull. Qed.
Print Assumptions C08_merge_hull.

Theorem C08_reduce_is_fold : forall l p,
  heartbeat_reduce l p = rev (fold_left (fold_step p) l []).
Proof. exact reduce_is_fold. Qed.
Print Assumptions C08_reduce_is_fold.

Theorem C08_no_adjacent_mergeable : forall l p,
  no_adjacent_mergeable p (heartbeat_reduce l p).
Proof. exact reduce_no_adjacent_mergeable. Qed.
Print Assumptions C08_no_adjacent_mergeable.

Theorem C08_reduce_idempotent : forall l p,
  heartbeat_reduce (heartbeat_reduce l p) p = heartbeat_reduce l p.
Proof. exact reduce_idempotent. Qed.
Print Assumptions C08_reduce_idempotent.

(* Every input interval (of any length, so in particular of non-negative length) lies
   inside an output event with the same data. *)
Theorem C08_covers_inputs : forall l p e,
  In e l ->
  exists o, In o (heartbeat_reduce l p) /\
            ts o <= ts e /\ eend e <= eend o /\ data o = data e.
Proof. exact reduce_covers_inputs. Qed.
Print Assumptions C08_covers_inputs.

(* Non-vacuity: a concrete stream on which merging, refusal (gap above pulsetime),
   refusal (different data) and a negative-duration refusal all occur. *)
Example C08_nonvacuous :
  let e t d x := mkEvent None t d x in
  heartbeat_reduce [e 0 10 1; e 12 5 1; e 30 1 1; e 30 2 2; e 40 (-1) 3; e 40 2 3] 5
  = [e 0 17 1; e 30 1 1; e 30 2 2; e 40 (-1) 3; e 40 2 3].
Proof. vm_compute. reflexivity. Qed.
