(* C12 — queries only read: bucket data is unchanged and scoped to the query window.
   Property statements only.  Models: Model/MemHeap.v, Model/MemHeapQuery.v; proofs:
   Proofs/MemHeap*.v, Proofs/Ownership.v.

   Statement (properties.jsonl): "Running any query, successful or failing, leaves every
   bucket's events and metadata exactly as they were.  Inside a query, query_bucket(b)
   yields the same events as a direct windowed read of b over the query's start and end
   instants and query_bucket_eventcount(b) the matching count, on every backend."

   PARTIAL in one named respect: [builtins_confined] (what a built-in may touch) is a
   hypothesis about Python's reference semantics, not proved per built-in; and
   [parse_inverts_isoformat] is an oracle hypothesis about iso8601 / datetime that the
   harness validates on every generated window. *)
From AwVerif Require Import Base.Prelude Model.MemHeap Model.MemHeapQuery
  Proofs.MemHeapBase Proofs.MemHeapCopy Proofs.MemHeapFrame Proofs.Ownership Proofs.MemHeapQueryProofs
  Proofs.MemHeapQueryRepeat.

(* For every program (any sequence of datastore reads, built-in calls and raising
   statements; the run stops at the first step that raises, keeping whatever that step
   already did to the heap), from every separated state: the store's roots and the tree
   unfolding of every one of them (metadata and events of every bucket) are as before,
   and the state is separated again. *)
Theorem C12_store_unchanged :
  forall (str : Type) (parse_date : str -> option adt)
         (builtin : Z -> list loc -> heap -> heap * option (list loc)),
    builtins_confined builtin ->
    forall (ns : namespace str) (prog : list qstep) (s : state),
      Sep s ->
      Sep (run_query str parse_date builtin ns prog s) /\
      store (run_query str parse_date builtin ns prog s) = store s /\
      content_store (run_query str parse_date builtin ns prog s) = content_store s.
Proof. exact query_store_unchanged. Qed.
Print Assumptions C12_store_unchanged.

(* query_bucket(b) under the namespace query2.query builds is Bucket.get(b, start, end)
   (limit -1) and query_bucket_eventcount(b) is Bucket.get_eventcount(b, start, end); an
   unknown bucket is a query error. *)
Theorem C12_query_bucket_is_get :
  forall (str : Type) (isoformat : adt -> str) (parse_date : str -> option adt),
    parse_inverts_isoformat str isoformat parse_date ->
    forall s st en b,
      q2_query_bucket str parse_date s (query_namespace str isoformat st en) b =
        match find_bucket (store s) b with
        | Some _ => bucket_get s b (-1) (Some st) (Some en)
        | None => Err FunctionError
        end
      /\
      q2_query_bucket_eventcount str parse_date s (query_namespace str isoformat st en) b =
        match find_bucket (store s) b with
        | Some _ => bucket_get_eventcount s b (Some st) (Some en)
        | None => Err FunctionError
        end.
Proof. exact query_bucket_is_get. Qed.
Print Assumptions C12_query_bucket_is_get.

(* the window Bucket.get hands to the storage: start floored, end pushed to the next
   millisecond of the UTC instant -- for every UTC offset since 49e3288 (the edge is converted
   to UTC before the rounding; before: UTC offsets that are whole milliseconds) *)
Theorem C12_window_rounding : forall d,
  round_start d = 1000 * (fst d / 1000) /\ round_end d = 1000 * (fst d / 1000) + 1000.
Proof. intros d. split; [apply round_start_floor|apply round_end_ceil]. Qed.
Print Assumptions C12_window_rounding.

(* a datastore read inside a query hands out objects that unfold to the stored trees *)
Theorem C12_reads_return_stored : forall s b l st en s' r,
  get_events s b l st en = Ok (s', RRoot r) ->
  exists bk vs ks ts,
    find_bucket (store s) b = Some bk /\
    map_res (view (heap_of s)) (b_events bk) = Ok vs /\
    lookup (heap_of s') r = Some (Cell (TNode EVENT_LIST) ks) /\
    map_res (content_of (heap_of s')) (map v_root (select_events vs l st en)) = Ok ts /\
    map_res (content_of (heap_of s')) ks = Ok ts.
Proof. exact get_events_returns_stored. Qed.
Print Assumptions C12_reads_return_stored.

(* Non-vacuity.  (1) The confinement hypothesis is met by a built-in that overwrites its
   arguments, aliases them in its result and raises midway for f < 0. *)
Theorem C12_confinement_inhabited : builtins_confined demo_builtin.
Proof. exact demo_builtin_confined. Qed.
Print Assumptions C12_confinement_inhabited.

(* (2) A concrete run: one bucket with two events; the query reads the bucket, mutates
   what it read (the events list cell and then an event object itself), and a built-in
   raises after mutating.  The namespace copies do change; the store does not. *)
Definition ex_state : state :=
  run [CallerAlloc (Cell (TNode 5) []);
       CallerAlloc (Cell (TEv None 1000 500) [0%nat]);
       CallerAlloc (Cell (TNode 6) []);
       CallerAlloc (Cell (TEv None 3000 500) [2%nat]);
       CreateBucket 1 7 None;
       InsertOne 1 1%nat; InsertOne 1 3%nat] init.

Definition ex_parse (d : adt) : option adt := Some d.
Definition ex_ns : namespace adt := query_namespace adt (fun d => d) (0, 0) (5000, 0).
Definition ex_prog : list qstep :=
  [QQueryBucket 1; QBuiltin 8 [6%nat]; QBuckets; QBuiltin (-3) [6%nat; 7%nat]; QQueryBucket 1].

Example C12_nonvacuous :
  let s' := run_query adt ex_parse demo_builtin ex_ns ex_prog ex_state in
  content_store s' = content_store ex_state /\
  length (store ex_state) = 1%nat /\
  (* the aborted query got as far as its fourth step and did mutate the list it had read *)
  length (held s') = 9%nat /\
  option_map ctag (lookup (heap_of s') 19%nat) = Some (TNode (-3)) /\
  content_store ex_state =
    [(1, Ok (T (TNode 7) [T (TNode EMPTY_DICT) []]),
      [Ok (T (TEv (Some 0) 1000 500) [T (TNode 5) []]);
       Ok (T (TEv (Some 1) 3000 500) [T (TNode 6) []])])].
Proof. vm_compute. repeat split; reflexivity. Qed.

(* ------------------------------------------------------------------------- *)
(* Round 2.  The second sentence at EVERY position of a program.  A query is a list of
   segments (Model/MemHeapQuery.v [run_windows]): a program may assign STARTTIME / ENDTIME
   and its following statements then run under that namespace.  After any such segments
   and any prefix of the current one -- earlier reads of the same bucket, built-ins that
   changed what those reads handed out, a step that raised in between is the end of the
   run -- the store's roots and content are those the query started with ... *)
Theorem C12_store_unchanged_windows :
  forall (str : Type) (parse_date : str -> option adt)
         (builtin : Z -> list loc -> heap -> heap * option (list loc)),
    builtins_confined builtin ->
    forall (segs : list (namespace str * list qstep)) (s : state),
      Sep s ->
      Sep (run_windows str parse_date builtin segs s) /\
      store (run_windows str parse_date builtin segs s) = store s /\
      content_store (run_windows str parse_date builtin segs s) = content_store s.
Proof. exact run_windows_kept. Qed.
Print Assumptions C12_store_unchanged_windows.

(* ... and query_bucket(b) under the window (st, en) hands out a list cell whose elements
   unfold to the trees that the events selected from the store OF THE INITIAL STATE (all of
   them, newest first, window [round_start st, round_end en]) unfold to in the INITIAL
   heap; query_bucket_eventcount(b) is the count over [st, en] of the initial store. *)
Theorem C12_query_bucket_at_any_position :
  forall (str : Type) (isoformat : adt -> str) (parse_date : str -> option adt)
         (builtin : Z -> list loc -> heap -> heap * option (list loc)),
    builtins_confined builtin ->
    parse_inverts_isoformat str isoformat parse_date ->
    forall segs st en pre s0 b s2 r,
      Sep s0 ->
      let ns := query_namespace str isoformat st en in
      q2_query_bucket str parse_date
        (run_query str parse_date builtin ns pre (run_windows str parse_date builtin segs s0)) ns b
        = Ok (s2, RRoot r) ->
      exists bk vs ks ts,
        find_bucket (store s0) b = Some bk /\
        map_res (view (heap_of s0)) (b_events bk) = Ok vs /\
        lookup (heap_of s2) r = Some (Cell (TNode EVENT_LIST) ks) /\
        map_res (content_of (heap_of s2)) ks = Ok ts /\
        map_res (content_of (heap_of s0))
          (map v_root (select_events vs (-1) (Some (round_start st)) (Some (round_end en)))) = Ok ts.
Proof. exact query_bucket_any_position. Qed.
Print Assumptions C12_query_bucket_at_any_position.

Theorem C12_eventcount_at_any_position :
  forall (str : Type) (isoformat : adt -> str) (parse_date : str -> option adt)
         (builtin : Z -> list loc -> heap -> heap * option (list loc)),
    builtins_confined builtin ->
    parse_inverts_isoformat str isoformat parse_date ->
    forall segs st en pre s0 b s2 n,
      Sep s0 ->
      let ns := query_namespace str isoformat st en in
      q2_query_bucket_eventcount str parse_date
        (run_query str parse_date builtin ns pre (run_windows str parse_date builtin segs s0)) ns b
        = Ok (s2, RInt n) ->
      exists bk vs,
        find_bucket (store s0) b = Some bk /\
        map_res (view (heap_of s0)) (b_events bk) = Ok vs /\
        n = count_events vs (Some (fst st)) (Some (fst en)).
Proof. exact eventcount_any_position. Qed.
Print Assumptions C12_eventcount_at_any_position.

(* Two reads of one bucket under one window, whatever ran before each of them: equal trees. *)
Theorem C12_query_bucket_repeatable :
  forall (str : Type) (isoformat : adt -> str) (parse_date : str -> option adt)
         (builtin : Z -> list loc -> heap -> heap * option (list loc)),
    builtins_confined builtin ->
    parse_inverts_isoformat str isoformat parse_date ->
    forall segs1 pre1 segs2 pre2 st en s0 b sa ra sb rb,
      Sep s0 ->
      let ns := query_namespace str isoformat st en in
      q2_query_bucket str parse_date
        (run_query str parse_date builtin ns pre1 (run_windows str parse_date builtin segs1 s0)) ns b
        = Ok (sa, RRoot ra) ->
      q2_query_bucket str parse_date
        (run_query str parse_date builtin ns pre2 (run_windows str parse_date builtin segs2 s0)) ns b
        = Ok (sb, RRoot rb) ->
      exists ka kb ts,
        lookup (heap_of sa) ra = Some (Cell (TNode EVENT_LIST) ka) /\
        lookup (heap_of sb) rb = Some (Cell (TNode EVENT_LIST) kb) /\
        map_res (content_of (heap_of sa)) ka = Ok ts /\
        map_res (content_of (heap_of sb)) kb = Ok ts.
Proof. exact query_bucket_repeatable. Qed.
Print Assumptions C12_query_bucket_repeatable.

(* Non-vacuity: the bucket of [ex_state] is read, the list that was handed out is changed in
   place twice (namespace entries 6, 7: tag 8 instead of EVENT_LIST), the program assigns
   the window (0, 1500) and reads again (one event, count 1); a read under the first window
   after all that hands out a new cell (28) with both events as stored, and the count is 2. *)
Definition ex_ns_short : namespace adt := query_namespace adt (fun d => d) (0, 0) (1500, 0).
Definition ex_segs : list (namespace adt * list qstep) :=
  [(ex_ns, [QQueryBucket 1; QBuiltin 8 [6%nat]; QBuiltin 8 [7%nat]]);
   (ex_ns_short, [QQueryBucket 1; QEventcount 1])].

Example C12_repeat_nonvacuous :
  let s' := run_windows adt ex_parse demo_builtin ex_segs ex_state in
  content_store s' = content_store ex_state /\
  option_map (content_of (heap_of s')) (nth_error (held s') 6) =
    Some (Ok (T (TNode 8) [T (TEv (Some 1) 3000 500) [T (TNode 6) []];
                           T (TEv (Some 0) 1000 500) [T (TNode 5) []]])) /\
  option_map (content_of (heap_of s')) (nth_error (held s') 9) =
    Some (Ok (T (TNode EVENT_LIST) [T (TEv (Some 0) 1000 500) [T (TNode 5) []]])) /\
  (match q2_query_bucket adt ex_parse s' ex_ns 1 with
   | Ok (s3, RRoot r) => Some (r, content_of (heap_of s3) r)
   | _ => None
   end) = Some (28%nat, Ok (T (TNode EVENT_LIST) [T (TEv (Some 1) 3000 500) [T (TNode 6) []];
                                                  T (TEv (Some 0) 1000 500) [T (TNode 5) []]])) /\
  (match q2_query_bucket_eventcount adt ex_parse s' ex_ns 1 with Ok (_, RInt n) => Some n | _ => None end) = Some 2 /\
  (match q2_query_bucket_eventcount adt ex_parse s' ex_ns_short 1 with Ok (_, RInt n) => Some n | _ => None end) = Some 1.
Proof. vm_compute. repeat split; reflexivity. Qed.
