(* C12 — queries only read: bucket data is unchanged and scoped to the query window.
   Property statements only.  Models: Model/MemHeap.v, Model/MemHeapQuery.v; proofs:
   Proofs/MemHeap*.v, Proofs/Ownership.v.

   Statement (properties.jsonl): "Running any query, successful or failing, leaves every
   bucket's events and metadata exactly as they were.  Inside a query, query_bucket(b)
   yields the same events as a direct windowed read of b over the query's start and end
   instants and query_bucket_eventcount(b) the matching count, on every backend."

   PARTIAL in one named respect: [builtins_confined] (what a built-in may touch) is a
   hypothesis about Python's reference semantics, not proved per built-in; and
   [parse_inverts_isoformat] is an oracle hypothesis about iso8601 / datetime that the
   harness validates on every generated window. *)
From AwVerif Require Import Base.Prelude Model.MemHeap Model.MemHeapQuery
  Proofs.MemHeapBase Proofs.MemHeapCopy Proofs.MemHeapFrame Proofs.Ownership Proofs.MemHeapQueryProofs.

(* For every program (any sequence of datastore reads, built-in calls and raising
   statements; the run stops at the first step that raises, keeping whatever that step
   already did to the heap), from every separated state: the store's roots and the tree
   unfolding of every one of them (metadata and events of every bucket) are as before,
   and the state is separated again. *)
Theorem C12_store_unchanged :
  forall (str : Type) (parse_date : str -> option adt)
         (builtin : Z -> list loc -> heap -> heap * option (list loc)),
    builtins_confined builtin ->
    forall (ns : namespace str) (prog : list qstep) (s : state),
      Sep s ->
      Sep (run_query str parse_date builtin ns prog s) /\
      store (run_query str parse_date builtin ns prog s) = store s /\
      content_store (run_query str parse_date builtin ns prog s) = content_store s.
Proof. exact query_store_unchanged. Qed.
Print Assumptions C12_store_unchanged.

(* query_bucket(b) under the namespace query2.query builds is Bucket.get(b, start, end)
   (limit -1) and query_bucket_eventcount(b) is Bucket.get_eventcount(b, start, end); an
   unknown bucket is a query error. *)
Theorem C12_query_bucket_is_get :
  forall (str : Type) (isoformat : adt -> str) (parse_date : str -> option adt),
    parse_inverts_isoformat str isoformat parse_date ->
    forall s st en b,
      q2_query_bucket str parse_date s (query_namespace str isoformat st en) b =
        match find_bucket (store s) b with
        | Some _ => bucket_get s b (-1) (Some st) (Some en)
        | None => Err FunctionError
        end
      /\
      q2_query_bucket_eventcount str parse_date s (query_namespace str isoformat st en) b =
        match find_bucket (store s) b with
        | Some _ => bucket_get_eventcount s b (Some st) (Some en)
        | None => Err FunctionError
        end.
Proof. exact query_bucket_is_get. Qed.
Print Assumptions C12_query_bucket_is_get.

(* the window Bucket.get hands to the storage: start floored, end pushed to the next
   millisecond (UTC offsets that are whole milliseconds) *)
Theorem C12_window_rounding : forall d, snd d mod 1000 = 0 ->
  round_start d = 1000 * (fst d / 1000) /\ round_end d = 1000 * (fst d / 1000) + 1000.
Proof. intros d H. split; [now apply round_start_floor|now apply round_end_ceil]. Qed.
Print Assumptions C12_window_rounding.

(* a datastore read inside a query hands out objects that unfold to the stored trees *)
Theorem C12_reads_return_stored : forall s b l st en s' r,
  get_events s b l st en = Ok (s', RRoot r) ->
  exists bk vs ks ts,
    find_bucket (store s) b = Some bk /\
    map_res (view (heap_of s)) (b_events bk) = Ok vs /\
    lookup (heap_of s') r = Some (Cell (TNode EVENT_LIST) ks) /\
    map_res (content_of (heap_of s')) (map v_root (select_events vs l st en)) = Ok ts /\
    map_res (content_of (heap_of s')) ks = Ok ts.
Proof. exact get_events_returns_stored. Qed.
Print Assumptions C12_reads_return_stored.

(* Non-vacuity.  (1) The confinement hypothesis is met by a built-in that overwrites its
   arguments, aliases them in its result and raises midway for f < 0. *)
Theorem C12_confinement_inhabited : builtins_confined demo_builtin.
Proof. exact demo_builtin_confined. Qed.
Print Assumptions C12_confinement_inhabited.

(* (2) A concrete run: one bucket with two events; the query reads the bucket, mutates
   what it read (the events list cell and then an event object itself), and a built-in
   raises after mutating.  The namespace copies do change; the store does not. *)
Definition ex_state : state :=
  run [CallerAlloc (Cell (TNode 5) []);
       CallerAlloc (Cell (TEv None 1000 500) [0%nat]);
       CallerAlloc (Cell (TNode 6) []);
       CallerAlloc (Cell (TEv None 3000 500) [2%nat]);
       CreateBucket 1 7 None;
       InsertOne 1 1%nat; InsertOne 1 3%nat] init.

Definition ex_parse (d : adt) : option adt := Some d.
Definition ex_ns : namespace adt := query_namespace adt (fun d => d) (0, 0) (5000, 0).
Definition ex_prog : list qstep :=
  [QQueryBucket 1; QBuiltin 8 [6%nat]; QBuckets; QBuiltin (-3) [6%nat; 7%nat]; QQueryBucket 1].

Example C12_nonvacuous :
  let s' := run_query adt ex_parse demo_builtin ex_ns ex_prog ex_state in
  content_store s' = content_store ex_state /\
  length (store ex_state) = 1%nat /\
  (* the aborted query got as far as its fourth step and did mutate the list it had read *)
  length (held s') = 9%nat /\
  option_map ctag (lookup (heap_of s') 19%nat) = Some (TNode (-3)) /\
  content_store ex_state =
    [(1, Ok (T (TNode 7) [T (TNode EMPTY_DICT) []]),
      [Ok (T (TEv (Some 0) 1000 500) [T (TNode 5) []]);
       Ok (T (TEv (Some 1) 3000 500) [T (TNode 6) []])])].
Proof. vm_compute. repeat split; reflexivity. Qed.
