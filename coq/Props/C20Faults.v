(* C20, "it never alters an existing user file", when the READ of that file fails (round 5).
   Model: Model/ConfigFaults.v (Model/Config.v's I/O script with one more answer of the file
   system: the read-mode open / read of the existing file raises). *)
From AwVerif Require Import Base.Prelude Model.Config Model.ConfigFaults Proofs.ConfigIOFaults.

(* The extended script is the old one whenever the read succeeds, and whenever there is no file. *)
Theorem C20_faults_conservative :
  forall (text : Type) (parse : text -> res table) (comment : text -> text) default file,
    load_config_f parse comment default file ReadOk = lift_result (load_config parse comment default file).
Proof. exact (@load_f_faultless). Qed.
Print Assumptions C20_faults_conservative.

Theorem C20_faults_no_file :
  forall (text : Type) (parse : text -> res table) (comment : text -> text) default ro,
    load_config_f parse comment default None ro = lift_result (load_config parse comment default None).
Proof. exact (@load_f_no_file). Qed.
Print Assumptions C20_faults_no_file.

(* For every parser, commenting function, default text, file content and EVERY answer to the
   read (success, or any exception class): the file afterwards is the file before, no write. *)
Theorem C20_user_file_untouched_any_read_outcome :
  forall (text : Type) (parse : text -> res table) (comment : text -> text) default user ro,
    let r := load_config_f parse comment default (Some user) ro in
    lf_file r = Some user /\ writes_f (lf_trace r) = [].
Proof. exact (@load_f_existing_untouched). Qed.
Print Assumptions C20_user_file_untouched_any_read_outcome.

(* When the read of an existing file fails, no write happens: the load raises the read's
   exception, the trace is isfile -> failed read, the file keeps its content. *)
Theorem C20_read_fault_no_write :
  forall (text : Type) (parse : text -> res table) (comment : text -> text) default user c d,
    parse default = Ok d ->
    let r := load_config_f parse comment default (Some user) (ReadFails c) in
    lf_value r = Err c /\ lf_file r = Some user /\
    lf_trace r = [FIsFile true; FReadFailed c] /\ writes_f (lf_trace r) = [].
Proof. exact (@load_f_read_fails). Qed.
Print Assumptions C20_read_fault_no_write.

(* ... and the load after the fault is the ordinary load of the user's file. *)
Theorem C20_load_after_read_fault :
  forall (text : Type) (parse : text -> res table) (comment : text -> text) default user c,
    let r1 := load_config_f parse comment default (Some user) (ReadFails c) in
    load_config_f parse comment default (lf_file r1) ReadOk
    = lift_result (load_config parse comment default (Some user)).
Proof. exact (@load_f_after_fault). Qed.
Print Assumptions C20_load_after_read_fault.

(* Non-vacuity on the line model: defaults `1 = . / [2] / 1 = .`, user file `1 = . / 3 = .`;
   the read fails with OtherError (Python: OSError); afterwards the ordinary load has the
   user's values. *)
Example C20_read_fault_nonvacuous :
  let default := [KeyVal [1] (Leaf 10); Header [2]; KeyVal [1] (Leaf 10)] in
  let user := [KeyVal [1] (Leaf 11); KeyVal [3] (Leaf 12)] in
  let r1 := load_lines_f default (Some user) (ReadFails OtherError) in
  let r2 := load_lines_f default (lf_file r1) ReadOk in
  lf_value r1 = Err OtherError /\ lf_file r1 = Some user /\
  lf_trace r1 = [FIsFile true; FReadFailed OtherError] /\
  lf_value r2 = Ok [(1, Leaf 11); (2, Tab [(1, Leaf 10)]); (3, Leaf 12)] /\
  lf_trace r2 = [FIsFile true; FRead].
Proof. vm_compute. repeat split; reflexivity. Qed.

(* What the theorem excludes: the script that takes ANY failure of the read for "no file yet"
   (a seeded change) replaces the user's file by the commented-out defaults and returns pure
   defaults; the user's values are gone on every later load. *)
Theorem C20_read_fault_eafp_variant_breaks :
  forall (text : Type) (parse : text -> res table) (comment : text -> text) default user c d,
    parse default = Ok d ->
    let r := load_config_eafp parse comment default (Some user) (ReadFails c) in
    lf_file r = Some (comment default) /\ writes_f (lf_trace r) = [FWrite (comment default)].
Proof. exact (@load_eafp_overwrites). Qed.
Print Assumptions C20_read_fault_eafp_variant_breaks.

Example C20_read_fault_eafp_variant_loses_user_values :
  let default := [KeyVal [1] (Leaf 10); Header [2]; KeyVal [1] (Leaf 10)] in
  let user := [KeyVal [1] (Leaf 11); KeyVal [3] (Leaf 12)] in
  let r1 := load_config_eafp parse_lines comment_out default (Some user) (ReadFails OtherError) in
  lf_file r1 = Some [Comment; Header [2]; Comment] /\ lf_file r1 <> Some user /\
  lf_value (load_config_eafp parse_lines comment_out default (lf_file r1) ReadOk)
  = Ok [(1, Leaf 10); (2, Tab [(1, Leaf 10)])].
Proof. vm_compute. repeat split; try reflexivity. discriminate. Qed.
