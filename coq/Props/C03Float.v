(* C03 -- the float-dependent statements, kept apart from Props/C03.v so that the list/Z
   development stays free of primitive floats and of the real-number axioms:
   the binary64 expressions of Bucket.get compute the integer rounding of Model/Window.v, and
   sqlite's float window parameters satisfy the premise float_param_ok of the sqlite theorems.
   Statements only. *)
From AwVerif Require Import Base.Prelude Model.StoreBase Model.SqliteStore Model.PyFloat Model.Window
  Model.WindowFloat Proofs.WindowRound Proofs.WindowSqlite Proofs.WindowAll Proofs.WindowFloat
  Proofs.WindowSqliteFloat.
From AwVerif Require Import Model.PeeweeStore Model.SqliteDate Proofs.WindowSpec Proofs.WindowPeewee
  Proofs.SqliteDate.

(* the code's float expressions (binary64 division, int()) compute the integer model, on the
   microsecond field of every reading (utc instant, utcoffset) ... *)
Theorem C03_round_float : forall utc off,
  round_start_f utc off = Ok (round_start_tz utc off) /\
  round_end_f utc off = Ok (round_end_tz utc off).
Proof. exact (fun utc off => conj (round_start_f_exact utc off) (round_end_f_exact utc off)). Qed.
Print Assumptions C03_round_float.

(* ... and, as Bucket.get applies them since 49e3288 (on the UTC reading of the edge), they give
   floor_ms / floor_ms + 1000 of the instant for EVERY utcoffset (before: whole-millisecond
   utcoffsets) *)
Theorem C03_round_float_closed : forall utc off,
  bucket_round_start_f utc off = Ok (bucket_round_start_tz utc off) /\
  bucket_round_end_f utc off = Ok (bucket_round_end_tz utc off) /\
  bucket_round_start_f utc off = Ok (floor_ms utc) /\
  bucket_round_end_f utc off = Ok (floor_ms utc + 1000).
Proof.
  exact (fun utc off => conj (proj1 (bucket_round_f_exact utc off)) (conj (proj2 (bucket_round_f_exact utc off))
           (bucket_get_float_closed utc off))).
Qed.
Print Assumptions C03_round_float_closed.

(* the oracle hypothesis discharged for the parameters the code computes: functions that agree
   with the binary64 model of `t.timestamp() * 1000000` (ceiling / floor taken by SQLite's exact
   comparison) are within 1 us -- Flocq lemma of Proofs/CodecWindow.v, standard-library real
   axioms *)
Theorem C03_float_param_ok : forall plo phi,
  agrees_with plo sq_param_ceil -> agrees_with phi sq_param_floor ->
  float_param_ok plo /\ float_param_ok phi.
Proof. exact (fun plo phi A1 A2 => conj (float_param_ok_ceil plo A1) (float_param_ok_floor phi A2)). Qed.
Print Assumptions C03_float_param_ok.

Theorem C03_window_sqlite_float : forall plo phi c b m es ws we,
  agrees_with plo sq_param_ceil -> agrees_with phi sq_param_floor ->
  sq_view c b = Some (m, es) -> edge_dom ws -> edge_dom we ->
  (forall e, In e es -> ev_dom e -> meets DELTA ws we e = true ->
     exists U, sq_read plo phi c b (-1) ws we = Ok (OEvents U) /\ In e U) /\
  (forall limit L e, sq_read plo phi c b limit ws we = Ok (OEvents L) -> In e L ->
     In e es /\ meets (- DELTA) ws we e = true).
Proof. exact sq_window_delta_float. Qed.
Print Assumptions C03_window_sqlite_float.

(* non-vacuity: parameter functions agreeing with the float model exist *)
Example ex_agrees : agrees_with plo_float sq_param_ceil /\ agrees_with phi_float sq_param_floor.
Proof. exact (conj plo_float_agrees phi_float_agrees). Qed.


(* ------------------------------------------------------------------------- *)
(* peewee: the oracle hypothesis sql_end_ok discharged for the MODEL of SQLite 3.40.1's date
   arithmetic (Model/SqliteDate.v: julianday = iJD/86400000.0, the binary64 expression
   (jd - 2440587.5) * 86400.0 + cell, the 'unixepoch' modifier r = x*1000.0 + 210866760000000.0,
   iJD = (i64)(r + 0.5)).  The engine's arithmetic is modelled, not verified: the model is
   compared bit for bit with the engine's TEXT output on every stored row of every run.
     cell_near d cell   the duration cell is a finite double within 1/64 us of the duration d
     cells_ok cellf     cellf d is such a cell for every 0 <= d <= 24 h (peewee_cell: the
                        float total_seconds() gives, ex_cells_ok)
     sqlite_end_us cellf t d   the printed instant (us) of a row (t, d); equals the model
                        sd_end_us t (cellf d) on every whole-millisecond t (C03_sql_end_model) *)

(* the model's end instant: a whole millisecond within 562 us of ts + dur (measured on the
   engine: 535 us) *)
Theorem C03_sql_end_model_bound : forall t d cell,
  t mod 1000 = 0 -> 0 <= t -> 0 <= d <= 86400000000 -> t + d < 2 ^ 52 -> cell_near d cell ->
  exists v, sd_end_us t cell = Ok v /\ v mod 1000 = 0 /\ Z.abs (v - (t + d)) <= 562.
Proof. exact sd_end_us_bound. Qed.
Print Assumptions C03_sql_end_model_bound.

Theorem C03_sql_end_model : forall cellf t d, cells_ok cellf ->
  t mod 1000 = 0 -> 0 <= t -> 0 <= d <= DAY_US -> t + d < 2 ^ 52 ->
  sd_end_us t (cellf d) = Ok (sqlite_end_us cellf t d) /\
  sqlite_end_us cellf t d mod 1000 = 0 /\ Z.abs (sqlite_end_us cellf t d - (t + d)) <= 562.
Proof. exact sqlite_end_us_model. Qed.
Print Assumptions C03_sql_end_model.

Theorem C03_sql_end_ok : forall cellf, cells_ok cellf -> sql_end_ok (sqlite_end_us cellf).
Proof. exact sqlite_end_us_ok. Qed.
Print Assumptions C03_sql_end_ok.

(* C03_complete_peewee / C03_sound_peewee / C03_window_peewee of Props/C03.v without the oracle
   premise: the start test is the engine model's *)
Theorem C03_complete_peewee_sqlite : forall cellf, cells_ok cellf ->
  forall c b es, pw_stored c b = Some es -> Forall pw_dom es -> forall ws we e,
  In e es -> meets 2000 ws we e = true ->
  exists U, pw_read (sqlite_end_us cellf) c b (-1) ws we = Ok (OEvents U) /\
            In (pw_clip (fst (bucket_get_round ws we)) (snd (bucket_get_round ws we)) e) U.
Proof. exact (fun cellf C => pw_complete _ (sqlite_end_us_ok cellf C)). Qed.
Print Assumptions C03_complete_peewee_sqlite.

Theorem C03_sound_peewee_sqlite : forall cellf, cells_ok cellf ->
  forall c b es, pw_stored c b = Some es -> Forall pw_dom es -> forall ws we, ordered ws we ->
  forall limit L x, pw_read (sqlite_end_us cellf) c b limit ws we = Ok (OEvents L) -> In x L ->
  exists e, In e es /\
    x = pw_clip (fst (bucket_get_round ws we)) (snd (bucket_get_round ws we)) e /\
    meets (-1000) (fst (bucket_get_round ws we)) (snd (bucket_get_round ws we)) e = true /\
    (forall w, snd (bucket_get_round ws we) = Some w -> ts e <= w) /\
    meets (-2000) ws we e = true.
Proof. exact (fun cellf C => pw_sound _ (sqlite_end_us_ok cellf C)). Qed.
Print Assumptions C03_sound_peewee_sqlite.

Theorem C03_window_peewee_sqlite : forall cellf c b es ws we, cells_ok cellf ->
  pw_stored c b = Some es -> Forall pw_dom es -> ordered ws we ->
  (forall e, In e es -> meets DELTA ws we e = true ->
     exists U, pw_read (sqlite_end_us cellf) c b (-1) ws we = Ok (OEvents U) /\
               In (pw_clip (fst (bucket_get_round ws we)) (snd (bucket_get_round ws we)) e) U) /\
  (forall limit L x, pw_read (sqlite_end_us cellf) c b limit ws we = Ok (OEvents L) -> In x L ->
     exists e, In e es /\
               x = pw_clip (fst (bucket_get_round ws we)) (snd (bucket_get_round ws we)) e /\
               meets (- DELTA) ws we e = true).
Proof. exact (fun cellf c b es ws we C => pw_window_delta _ c b es ws we (sqlite_end_us_ok cellf C)). Qed.
Print Assumptions C03_window_peewee_sqlite.

(* non-vacuity: the cell peewee.py writes (timedelta.total_seconds(), Model/Codec.v) qualifies;
   the negative-duration witness row of harness/c03_witness.py: an event of 0.9996 s ending
   400 us before a whole second prints as that whole second *)
Example ex_cells_ok : cells_ok peewee_cell.
Proof. exact peewee_cells_ok. Qed.
Example ex_sql_end_witness :
  sd_end_us 1600000000000000 (peewee_cell 999600) = Ok 1600000001000000 /\
  sqlite_end_us peewee_cell 1600000000000000 999600 = 1600000001000000.
Proof. split; vm_compute; reflexivity. Qed.
