(* C03 -- the float-dependent statements, kept apart from Props/C03.v so that the list/Z
   development stays free of primitive floats and of the real-number axioms:
   the binary64 expressions of Bucket.get compute the integer rounding of Model/Window.v, and
   sqlite's float window parameters satisfy the premise float_param_ok of the sqlite theorems.
   Statements only. *)
From AwVerif Require Import Base.Prelude Model.StoreBase Model.SqliteStore Model.PyFloat Model.Window
  Model.WindowFloat Proofs.WindowRound Proofs.WindowSqlite Proofs.WindowAll Proofs.WindowFloat
  Proofs.WindowSqliteFloat.

(* the code's float expressions (binary64 division, int()) compute the integer model, for
   every aware datetime (utc instant, utcoffset) *)
Theorem C03_round_float : forall utc off,
  round_start_f utc off = Ok (round_start_tz utc off) /\
  round_end_f utc off = Ok (round_end_tz utc off).
Proof. exact (fun utc off => conj (round_start_f_exact utc off) (round_end_f_exact utc off)). Qed.
Print Assumptions C03_round_float.

(* the oracle hypothesis discharged for the parameters the code computes: functions that agree
   with the binary64 model of `t.timestamp() * 1000000` (ceiling / floor taken by SQLite's exact
   comparison) are within 1 us -- Flocq lemma of Proofs/CodecWindow.v, standard-library real
   axioms *)
Theorem C03_float_param_ok : forall plo phi,
  agrees_with plo sq_param_ceil -> agrees_with phi sq_param_floor ->
  float_param_ok plo /\ float_param_ok phi.
Proof. exact (fun plo phi A1 A2 => conj (float_param_ok_ceil plo A1) (float_param_ok_floor phi A2)). Qed.
Print Assumptions C03_float_param_ok.

Theorem C03_window_sqlite_float : forall plo phi c b m es ws we,
  agrees_with plo sq_param_ceil -> agrees_with phi sq_param_floor ->
  sq_view c b = Some (m, es) -> edge_dom ws -> edge_dom we ->
  (forall e, In e es -> ev_dom e -> meets DELTA ws we e = true ->
     exists U, sq_read plo phi c b (-1) ws we = Ok (OEvents U) /\ In e U) /\
  (forall limit L e, sq_read plo phi c b limit ws we = Ok (OEvents L) -> In e L ->
     In e es /\ meets (- DELTA) ws we e = true).
Proof. exact sq_window_delta_float. Qed.
Print Assumptions C03_window_sqlite_float.

(* non-vacuity: parameter functions agreeing with the float model exist *)
Example ex_agrees : agrees_with plo_float sq_param_ceil /\ agrees_with phi_float sq_param_floor.
Proof. exact (conj plo_float_agrees phi_float_agrees). Qed.

