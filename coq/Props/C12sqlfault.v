(* C12, first sentence, on the sqlite store when the storage read of a query FAILS (round 5):
   "running any query, successful or FAILING, leaves every bucket's events ... exactly as they
   were".  Model: Model/CommitReadFault.v over Model/Commit.v (lazy commit bookkeeping). *)
From AwVerif Require Import Base.Prelude Model.Commit Model.CommitReadFault Proofs.CommitReadFaultProofs.

(* get_event / get_events / get_eventcount whose SELECT or row decoding raises: what the storage
   object could read before it can read afterwards (for every state: any number of lazily
   committed writes pending), and all of it is durable. *)
Theorem C12_failing_read_keeps_pending_writes :
  forall lazy c s,
    let s' := run_f lazy s (with_clk c failing_read_script) in
    visible s' = visible s /\ pending s' = [] /\ committed s' = visible s.
Proof. exact failing_read_keeps_everything. Qed.
Print Assumptions C12_failing_read_keeps_pending_writes.

Theorem C12_failing_read_after_any_history :
  forall lazy (tr : list (micro * clk)) c s0,
    let s := run lazy s0 tr in
    visible (run_f lazy s (with_clk c failing_read_script)) = visible s.
Proof. exact failing_read_after_history. Qed.
Print Assumptions C12_failing_read_after_any_history.

(* The class of the seeded change: the read inside `with self.conn:` instead of after
   self.commit() -- the same on every successful read, and it loses the open transaction of
   EVERY bucket when the read fails. *)
Theorem C12_with_block_variant_same_on_success :
  forall lazy c s, visible (run_f lazy s (with_clk c successful_read_in_with_block)) = visible s.
Proof. exact with_block_successful_read_same. Qed.

Theorem C12_with_block_variant_loses_pending :
  forall lazy c s, visible (run_f lazy s (with_clk c failing_read_in_with_block)) = committed s.
Proof. exact with_block_failing_read_loses_pending. Qed.
Print Assumptions C12_with_block_variant_loses_pending.

(* Non-vacuity: three single inserts since the last commit (lazy commit: 3 <= 50, young), then
   the failing read.  Code: all three kept and durable.  Variant: all three gone. *)
Example C12_failing_read_nonvacuous :
  let c := mkClk 1000 1000 1000 in
  let s := run true (init [1; 2] 0) (map (fun m => (m, c)) (expand_all [InsertOne 3; InsertOne 4; ReplaceLast 5])) in
  pending s = [3; 4; 5] /\
  visible (run_f true s (with_clk c failing_read_script)) = [1; 2; 3; 4; 5] /\
  committed (run_f true s (with_clk c failing_read_script)) = [1; 2; 3; 4; 5] /\
  visible (run_f true s (with_clk c failing_read_in_with_block)) = [1; 2].
Proof. vm_compute. repeat split; reflexivity. Qed.
