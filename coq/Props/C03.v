(* C03 -- Time-window reads return exactly the intersecting events, newest first, limited.
   Statements only (`exact lemma`); definitions and proofs live in Model/Window.v and
   Proofs/Window*.v.  Vocabulary:
     bucket_get_round ws we   Bucket.get's rounding of the requested window (ws', we')
     meets m ws we e          [ts e, ts e + dur e] reaches into [ws + m, we - m] (edges optional);
                              m > 0: certainly inside, m < 0: within |m| of the window
     X_read c b limit ws we   Bucket.get(limit, ws, we) on back end X
     X_readcount c b ws we    Bucket.get_eventcount(ws, we) on back end X (edges NOT rounded)
     desc ts L                timestamps of L non-increasing
     take limit U             0 -> [], negative -> U, k > 0 -> firstn k U
   Oracle hypotheses (Section variables of the proofs, explicit premises here):
     float_param_ok plo/phi   sqlite's float query parameter is within 1 us of the instant
     sql_end_ok sql_end_ms    SQLite's julianday/strftime end instant is within 1 ms of ts+dur
   The float-dependent statements (the code's binary64 expressions = this integer model; float_param_ok
   discharged) are in Props/C03Float.v. *)
From Coq Require Import Permutation Sorted.
From AwVerif Require Import Base.Prelude Model.StoreBase Model.MemStore Model.SqliteStore
  Model.PeeweeStore Model.Window
  Proofs.WindowRound Proofs.WindowBase Proofs.WindowSpec Proofs.WindowMem Proofs.WindowSqlite
  Proofs.WindowPeewee Proofs.WindowAll.

(* ------------------------------------------------------------------------- *)
(* the rounding of Bucket.get *)

Theorem C03_round_closed : forall ws we,
  bucket_get_round ws we =
  (option_map floor_ms ws, option_map (fun t => floor_ms t + 1000) we).
Proof. exact bucket_get_round_closed. Qed.
Print Assumptions C03_round_closed.

(* an aware edge (utc instant, utcoffset): since 49e3288 Bucket.get converts it to UTC before the
   rounding arithmetic, so the edge handed to the storage depends on the INSTANT alone -- for
   every utcoffset (the former premise `off mod 1000 = 0` of C03_round_whole_ms_offset is gone:
   the microsecond field that is rounded is the one of the UTC reading) ... *)
Theorem C03_round_instant_only : forall utc off,
  bucket_round_start_tz utc off = round_start utc /\ bucket_round_end_tz utc off = round_end utc.
Proof. exact bucket_round_tz_instant. Qed.
Print Assumptions C03_round_instant_only.

(* ... in closed form: the start floored to the millisecond of the epoch clock, the end pushed
   to the next one (was: bounds only, for offsets that are not whole milliseconds) *)
Theorem C03_round_any_offset : forall utc off,
  bucket_round_start_tz utc off = floor_ms utc /\ bucket_round_end_tz utc off = floor_ms utc + 1000.
Proof. exact bucket_round_tz_closed. Qed.
Print Assumptions C03_round_any_offset.

(* sensitivity (the repaired defect C03:window-end-in-fold, witness w23): the end rounding as it
   was before 49e3288, on an edge given with fold = 1 whose wall time has utcoffset off1 in its
   second reading and off0 in its first, lands off0 - off1 (one offset change) early *)
Theorem C03_round_end_fold_before_repair : forall utc off1 off0, off1 mod 1000 = 0 ->
  old_round_end_fold utc off1 off0 = bucket_round_end_tz utc off1 - (off0 - off1).
Proof. exact old_round_end_fold_early. Qed.
Print Assumptions C03_round_end_fold_before_repair.

(* ------------------------------------------------------------------------- *)
(* limit and order, for any back end *)

Theorem C03_limit_cases : forall (limit : Z) (U : list event),
  (limit = 0 -> take limit U = []) /\
  (limit < 0 -> take limit U = U) /\
  (0 < limit -> take limit U = firstn (Z.to_nat limit) U).
Proof. exact (@take_cases event). Qed.
Print Assumptions C03_limit_cases.

(* a positive limit keeps the newest: every kept event is at least as new as every omitted match *)
Theorem C03_limit_keeps_newest : forall (k : nat) (U : list event) x y,
  desc ts U -> In x (firstn k U) -> In y (skipn k U) -> ts y <= ts x.
Proof. exact prefix_newer. Qed.
Print Assumptions C03_limit_keeps_newest.

(* ------------------------------------------------------------------------- *)
(* memory (delta = 0 at the rounded edges) *)

Theorem C03_unlimited_mem : forall c b m es, mem_view c b = Some (m, es) -> forall ws we,
  exists U, mem_read c b (-1) ws we = Ok (OEvents U) /\
    Permutation U (filter (meets 0 (fst (bucket_get_round ws we)) (snd (bucket_get_round ws we))) es).
Proof. exact mem_unlimited. Qed.
Print Assumptions C03_unlimited_mem.

Theorem C03_complete_mem : forall c b m es, mem_view c b = Some (m, es) -> forall ws we e,
  In e es -> meets 0 ws we e = true ->
  exists U, mem_read c b (-1) ws we = Ok (OEvents U) /\ In e U.
Proof. exact mem_complete. Qed.
Print Assumptions C03_complete_mem.

Theorem C03_sound_mem : forall c b m es, mem_view c b = Some (m, es) -> forall ws we limit L e,
  mem_read c b limit ws we = Ok (OEvents L) -> In e L ->
  In e es /\
  meets 0 (fst (bucket_get_round ws we)) (snd (bucket_get_round ws we)) e = true /\
  meets (-1000) ws we e = true.
Proof. exact mem_sound. Qed.
Print Assumptions C03_sound_mem.

Theorem C03_sorted_desc_mem : forall c b m es, mem_view c b = Some (m, es) -> forall ws we limit L,
  mem_read c b limit ws we = Ok (OEvents L) -> desc ts L.
Proof. exact mem_sorted_desc. Qed.
Print Assumptions C03_sorted_desc_mem.

Theorem C03_limit_mem : forall c b m es, mem_view c b = Some (m, es) -> forall ws we limit,
  exists U, mem_read c b (-1) ws we = Ok (OEvents U) /\ desc ts U /\
            mem_read c b limit ws we = Ok (OEvents (take limit U)).
Proof. exact mem_limit. Qed.
Print Assumptions C03_limit_mem.

Theorem C03_count_mem : forall c b m es, mem_view c b = Some (m, es) -> forall ws we,
  mem_readcount c b ws we = Ok (OCount (Z.of_nat (length (filter (meets 0 ws we) es)))).
Proof. exact mem_count_exact. Qed.
Print Assumptions C03_count_mem.

Theorem C03_count_same_edges_mem : forall c b m es, mem_view c b = Some (m, es) -> forall ws we,
  exists U0, mem_get c b (-1) ws we = Ok (OEvents U0) /\
             mem_readcount c b ws we = Ok (OCount (Z.of_nat (length U0))).
Proof. exact mem_count_same_edges. Qed.
Print Assumptions C03_count_same_edges_mem.

Theorem C03_count_vs_read_mem : forall c b m es, mem_view c b = Some (m, es) -> forall ws we,
  exists n U, mem_readcount c b ws we = Ok (OCount (Z.of_nat n)) /\
              mem_read c b (-1) ws we = Ok (OEvents U) /\
              (n <= length U <= length (filter (meets (-1000) ws we) es))%nat.
Proof. exact mem_count_vs_read. Qed.
Print Assumptions C03_count_vs_read_mem.

Theorem C03_window_mem : forall c b m es ws we, mem_view c b = Some (m, es) ->
  (forall e, In e es -> meets DELTA ws we e = true ->
     exists U, mem_read c b (-1) ws we = Ok (OEvents U) /\ In e U) /\
  (forall limit L e, mem_read c b limit ws we = Ok (OEvents L) -> In e L ->
     In e es /\ meets (- DELTA) ws we e = true).
Proof. exact mem_window_delta. Qed.
Print Assumptions C03_window_mem.

(* ------------------------------------------------------------------------- *)
(* sqlite (delta = 1 us: the float parameters), for every pair of parameter functions within
   1 us of the instant; edges and events in the 1970.. domain *)

Theorem C03_unlimited_sqlite : forall plo phi c b m es, sq_view c b = Some (m, es) -> forall ws we,
  exists U, sq_read plo phi c b (-1) ws we = Ok (OEvents U) /\
    Permutation U (filter (sq_pred (sqx_lo plo (fst (bucket_get_round ws we)))
                                   (sqx_hi phi (snd (bucket_get_round ws we)))) es).
Proof. exact sq_unlimited. Qed.
Print Assumptions C03_unlimited_sqlite.

Theorem C03_complete_sqlite : forall plo phi, float_param_ok plo -> float_param_ok phi ->
  forall c b m es, sq_view c b = Some (m, es) -> forall ws we, edge_dom ws -> edge_dom we ->
  forall e, In e es -> ev_dom e -> meets 1 ws we e = true ->
  exists U, sq_read plo phi c b (-1) ws we = Ok (OEvents U) /\ In e U.
Proof. exact sq_complete. Qed.
Print Assumptions C03_complete_sqlite.

Theorem C03_sound_sqlite : forall plo phi, float_param_ok plo -> float_param_ok phi ->
  forall c b m es, sq_view c b = Some (m, es) -> forall ws we, edge_dom ws -> edge_dom we ->
  forall limit L e, sq_read plo phi c b limit ws we = Ok (OEvents L) -> In e L ->
  In e es /\
  meets (-1) (fst (bucket_get_round ws we)) (snd (bucket_get_round ws we)) e = true /\
  meets (-1001) ws we e = true.
Proof. exact sq_sound. Qed.
Print Assumptions C03_sound_sqlite.

Theorem C03_sorted_desc_sqlite : forall plo phi c b m es, sq_view c b = Some (m, es) ->
  forall ws we limit L, sq_read plo phi c b limit ws we = Ok (OEvents L) -> desc ts L.
Proof. exact sq_sorted_desc. Qed.
Print Assumptions C03_sorted_desc_sqlite.

Theorem C03_limit_sqlite : forall plo phi c b m es, sq_view c b = Some (m, es) -> forall ws we limit,
  exists U, sq_read plo phi c b (-1) ws we = Ok (OEvents U) /\ desc ts U /\
            sq_read plo phi c b limit ws we = Ok (OEvents (take limit U)).
Proof. exact sq_limit. Qed.
Print Assumptions C03_limit_sqlite.

Theorem C03_count_sqlite : forall plo phi, float_param_ok plo -> float_param_ok phi ->
  forall c b m es, sq_view c b = Some (m, es) -> forall ws we, edge_dom ws -> edge_dom we ->
  Forall ev_dom es ->
  exists n, sq_readcount plo phi c b ws we = Ok (OCount (Z.of_nat n)) /\
    (length (filter (meets 1 ws we) es) <= n <= length (filter (meets (-1) ws we) es))%nat.
Proof. exact sq_count_bounds. Qed.
Print Assumptions C03_count_sqlite.

Theorem C03_count_same_edges_sqlite : forall plo phi c b m es, sq_view c b = Some (m, es) ->
  forall ws we, exists U0,
    sqx_get plo phi c b (-1) ws we = Ok (OEvents U0) /\
    sq_readcount plo phi c b ws we = Ok (OCount (Z.of_nat (length U0))).
Proof. exact sq_count_same_edges. Qed.
Print Assumptions C03_count_same_edges_sqlite.

Theorem C03_read_bounds_sqlite : forall plo phi, float_param_ok plo -> float_param_ok phi ->
  forall c b m es, sq_view c b = Some (m, es) -> forall ws we, edge_dom ws -> edge_dom we ->
  Forall ev_dom es ->
  exists U, sq_read plo phi c b (-1) ws we = Ok (OEvents U) /\
    (length (filter (meets 1 ws we) es) <= length U <= length (filter (meets (-1001) ws we) es))%nat.
Proof. exact sq_read_bounds. Qed.
Print Assumptions C03_read_bounds_sqlite.

Theorem C03_window_sqlite : forall plo phi c b m es ws we,
  float_param_ok plo -> float_param_ok phi ->
  sq_view c b = Some (m, es) -> edge_dom ws -> edge_dom we ->
  (forall e, In e es -> ev_dom e -> meets DELTA ws we e = true ->
     exists U, sq_read plo phi c b (-1) ws we = Ok (OEvents U) /\ In e U) /\
  (forall limit L e, sq_read plo phi c b limit ws we = Ok (OEvents L) -> In e L ->
     In e es /\ meets (- DELTA) ws we e = true).
Proof. exact sq_window_delta. Qed.
Print Assumptions C03_window_sqlite.

(* with exact parameters the refined read is the store model's own get_events *)
Theorem C03_sqlite_refines_store_model : forall c b limit st en,
  sqx_get (fun t => t) (fun t => t) c b limit st en = snd (sq_step c (GetEvents b limit st en)).
Proof. exact sqx_get_id. Qed.
Print Assumptions C03_sqlite_refines_store_model.

(* domain limit, recorded: an event that ended before 1970 is dropped by the open-ended read *)
Theorem C03_complete_sqlite_needs_dom :
  exists m e, sq_view pre1970_state 1 = Some (m, [e]) /\ ~ ev_dom e /\
              sq_read (fun t => t) (fun t => t) pre1970_state 1 (-1) None None = Ok (OEvents []).
Proof. exact sq_complete_needs_dom. Qed.
Print Assumptions C03_complete_sqlite_needs_dom.

(* ------------------------------------------------------------------------- *)
(* peewee (start edge: 1 ms oracle error + 1 ms strict TEXT comparison; end edge exact), for
   every sql_end_ms within 1 ms of ts + dur; stored events of 0 .. 24 h inside 1970 .. 2^52 us *)

Theorem C03_unlimited_peewee : forall sql_end_ms c b es, pw_stored c b = Some es -> forall ws we,
  exists U, pw_read sql_end_ms c b (-1) ws we = Ok (OEvents U) /\
    Permutation U (map (pw_clip (fst (bucket_get_round ws we)) (snd (bucket_get_round ws we)))
                       (filter (pwx_pred sql_end_ms (fst (bucket_get_round ws we))
                                                    (snd (bucket_get_round ws we))) es)).
Proof. exact pw_unlimited. Qed.
Print Assumptions C03_unlimited_peewee.

Theorem C03_complete_peewee : forall sql_end_ms, sql_end_ok sql_end_ms ->
  forall c b es, pw_stored c b = Some es -> Forall pw_dom es -> forall ws we e,
  In e es -> meets 2000 ws we e = true ->
  exists U, pw_read sql_end_ms c b (-1) ws we = Ok (OEvents U) /\
            In (pw_clip (fst (bucket_get_round ws we)) (snd (bucket_get_round ws we)) e) U.
Proof. exact pw_complete. Qed.
Print Assumptions C03_complete_peewee.

Theorem C03_complete_rounded_peewee : forall sql_end_ms, sql_end_ok sql_end_ms ->
  forall c b es, pw_stored c b = Some es -> Forall pw_dom es -> forall ws we e,
  In e es ->
  (forall w, fst (bucket_get_round ws we) = Some w -> w + 2000 <= eend e) ->
  (forall w, snd (bucket_get_round ws we) = Some w -> ts e <= w) ->
  exists U, pw_read sql_end_ms c b (-1) ws we = Ok (OEvents U) /\
            In (pw_clip (fst (bucket_get_round ws we)) (snd (bucket_get_round ws we)) e) U.
Proof. exact pw_complete_rounded. Qed.
Print Assumptions C03_complete_rounded_peewee.

Theorem C03_sound_peewee : forall sql_end_ms, sql_end_ok sql_end_ms ->
  forall c b es, pw_stored c b = Some es -> Forall pw_dom es -> forall ws we, ordered ws we ->
  forall limit L x, pw_read sql_end_ms c b limit ws we = Ok (OEvents L) -> In x L ->
  exists e, In e es /\
    x = pw_clip (fst (bucket_get_round ws we)) (snd (bucket_get_round ws we)) e /\
    meets (-1000) (fst (bucket_get_round ws we)) (snd (bucket_get_round ws we)) e = true /\
    (forall w, snd (bucket_get_round ws we) = Some w -> ts e <= w) /\
    meets (-2000) ws we e = true.
Proof. exact pw_sound. Qed.
Print Assumptions C03_sound_peewee.

Theorem C03_sorted_desc_peewee : forall sql_end_ms c b es, pw_stored c b = Some es ->
  forall ws we limit L, pw_read sql_end_ms c b limit ws we = Ok (OEvents L) -> desc ts L.
Proof. exact pw_sorted_desc. Qed.
Print Assumptions C03_sorted_desc_peewee.

Theorem C03_limit_peewee : forall sql_end_ms c b es, pw_stored c b = Some es -> forall ws we limit,
  exists U, pw_read sql_end_ms c b (-1) ws we = Ok (OEvents U) /\ desc ts U /\
            pw_read sql_end_ms c b limit ws we = Ok (OEvents (take limit U)).
Proof. exact pw_limit. Qed.
Print Assumptions C03_limit_peewee.

Theorem C03_count_peewee : forall sql_end_ms, sql_end_ok sql_end_ms ->
  forall c b es, pw_stored c b = Some es -> Forall pw_dom es -> forall ws we,
  exists n, pw_readcount sql_end_ms c b ws we = Ok (OCount (Z.of_nat n)) /\
    (length (filter (meets 2000 ws we) es) <= n <= length (filter (meets (-2000) ws we) es))%nat.
Proof. exact pw_count_bounds. Qed.
Print Assumptions C03_count_peewee.

Theorem C03_count_same_edges_peewee : forall sql_end_ms c b es, pw_stored c b = Some es ->
  forall ws we, exists U0,
    pwx_get sql_end_ms c b (-1) ws we = Ok (OEvents U0) /\
    pw_readcount sql_end_ms c b ws we = Ok (OCount (Z.of_nat (length U0))).
Proof. exact pw_count_same_edges. Qed.
Print Assumptions C03_count_same_edges_peewee.

Theorem C03_read_bounds_peewee : forall sql_end_ms, sql_end_ok sql_end_ms ->
  forall c b es, pw_stored c b = Some es -> Forall pw_dom es -> forall ws we, ordered ws we ->
  exists U, pw_read sql_end_ms c b (-1) ws we = Ok (OEvents U) /\
    (length (filter (meets 2000 ws we) es) <= length U <= length (filter (meets (-2000) ws we) es))%nat.
Proof. exact pw_read_bounds. Qed.
Print Assumptions C03_read_bounds_peewee.

Theorem C03_window_peewee : forall sql_end_ms c b es ws we, sql_end_ok sql_end_ms ->
  pw_stored c b = Some es -> Forall pw_dom es -> ordered ws we ->
  (forall e, In e es -> meets DELTA ws we e = true ->
     exists U, pw_read sql_end_ms c b (-1) ws we = Ok (OEvents U) /\
               In (pw_clip (fst (bucket_get_round ws we)) (snd (bucket_get_round ws we)) e) U) /\
  (forall limit L x, pw_read sql_end_ms c b limit ws we = Ok (OEvents L) -> In x L ->
     exists e, In e es /\
               x = pw_clip (fst (bucket_get_round ws we)) (snd (bucket_get_round ws we)) e /\
               meets (- DELTA) ws we e = true).
Proof. exact pw_window_delta. Qed.
Print Assumptions C03_window_peewee.

(* each returned event is the stored event cut to the rounded window and nothing else: same id
   and data, start max(ts, ws'), duration max(0, min(end, we') - start); unchanged when the
   stored event lies inside the rounded window *)
Theorem C03_clip_exact_peewee : forall sql_end_ms, sql_end_ok sql_end_ms ->
  forall c b es, pw_stored c b = Some es -> Forall pw_dom es -> forall ws we, ordered ws we ->
  forall limit L x, pw_read sql_end_ms c b limit ws we = Ok (OEvents L) -> In x L ->
  exists e, In e es /\
    eid x = eid e /\ data x = data e /\
    ts x = match fst (bucket_get_round ws we) with Some w => Z.max (ts e) w | None => ts e end /\
    dur x = Z.max 0 (match snd (bucket_get_round ws we) with
                     | Some w => Z.min (eend e) w | None => eend e end - ts x) /\
    ((forall w, fst (bucket_get_round ws we) = Some w -> w <= ts e) ->
     (forall w, snd (bucket_get_round ws we) = Some w -> eend e <= w) -> x = e).
Proof. exact pw_returned_clipped. Qed.
Print Assumptions C03_clip_exact_peewee.

(* the clipping loop alone (any start edge on the millisecond grid) *)
Theorem C03_clip_formula_peewee : forall st en e,
  (forall w, st = Some w -> w mod 1000 = 0) ->
  (forall w, en = Some w -> ts e <= w) ->
  (forall a z, st = Some a -> en = Some z -> a <= z) ->
  0 <= dur e ->
  pw_clip st en e =
  mkEvent (eid e)
          (match st with Some w => Z.max (ts e) w | None => ts e end)
          (Z.max 0 (match en with Some w => Z.min (eend e) w | None => eend e end -
                    match st with Some w => Z.max (ts e) w | None => ts e end))
          (data e).
Proof. exact pw_clip_exact. Qed.
Print Assumptions C03_clip_formula_peewee.

Theorem C03_clip_never_negative_peewee : forall st en e,
  (forall w, en = Some w -> ts e <= w) ->
  (forall a z, st = Some a -> en = Some z -> a <= z) ->
  0 <= dur e -> 0 <= dur (pw_clip st en e).
Proof. exact pw_clip_dur_nonneg. Qed.
Print Assumptions C03_clip_never_negative_peewee.

(* for events of at most 24 h the prefilter never removes an event reaching the window start *)
Theorem C03_prefilter_peewee : forall ws r,
  pe_dur r <= DAY_US -> ws <= pe_ts r + pe_dur r -> pw_prefilter ws r = true.
Proof. exact pw_prefilter_harmless. Qed.
Print Assumptions C03_prefilter_peewee.

(* ------------------------------------------------------------------------- *)
(* non-vacuity: the hypotheses are inhabited by concrete, non-trivial values *)

Definition ex_meta : meta := mkMeta 1 1 1 0 None 0.
(* nested, overlapping, adjacent and zero-length events around 1 600 000 000 s *)
Definition ex_events : list event :=
  [ mkEvent None 1600000000000000 10000000 1;      (* [0 s, 10 s] *)
    mkEvent None 1600000002000000 1000000 2;       (* nested [2 s, 3 s] *)
    mkEvent None 1600000009000000 5000000 3;       (* overlapping [9 s, 14 s] *)
    mkEvent None 1600000014000000 0 4;             (* adjacent, zero-length at 14 s *)
    mkEvent None 1600000002000000 999600 5 ].      (* [2 s, 2.9996 s]: ends 0.4 ms before 3 s *)
Definition ex_ws : option Z := Some 1600000003000400.   (* floored to 3 s *)
Definition ex_we : option Z := Some 1600000013999500.   (* pushed to 14 s *)

Definition ex_mem : mstate :=
  fold_left (fun c e => fst (mem_step c (InsertOne 1 e))) ex_events
            (fst (mem_step mem_init (CreateBucket 1 ex_meta))).
Definition ex_sq : sqstate :=
  fold_left (fun c e => fst (sq_step c (InsertOne 1 e))) ex_events
            (fst (sq_step sq_init (CreateBucket 1 ex_meta))).
Definition ex_pw : pwstate :=
  fold_left (fun c e => fst (pw_step c (InsertOne 1 e))) ex_events
            (fst (pw_step pw_init (CreateBucket 1 ex_meta))).

Example ex_round : bucket_get_round ex_ws ex_we = (Some 1600000003000000, Some 1600000014000000).
Proof. vm_compute. reflexivity. Qed.

(* 2021-10-31T01:30:00Z written as 02:30 fold=1 Europe/Berlin (+01:00; the first reading of 02:30 is
   +02:00): handed on as 01:30:00.001Z; before the repair as 00:30:00.001Z, an hour early.
   And an offset of 0.5 ms: the local reading's field would floor 100 us too low. *)
Example ex_round_fold :
  bucket_round_end_tz 1635643800000000 3600000000 = 1635643800001000 /\
  old_round_end_fold 1635643800000000 3600000000 7200000000 = 1635640200001000.
Proof. split; vm_compute; reflexivity. Qed.
Example ex_round_sub_ms_offset :
  bucket_round_start_tz 1600000000000600 500 = 1600000000000000 /\
  round_start_tz 1600000000000600 500 = 1600000000000500.
Proof. split; vm_compute; reflexivity. Qed.

Example ex_mem_view : exists m es, mem_view ex_mem 1 = Some (m, es) /\ length es = 5%nat /\
  In (mkEvent (Some 1) 1600000002000000 1000000 2) es /\
  meets 0 ex_ws ex_we (mkEvent (Some 0) 1600000000000000 10000000 1) = true.
Proof. eexists _, _. split; [vm_compute; reflexivity|]. split; [reflexivity|]. split; [cbn; tauto|reflexivity]. Qed.

(* the nested event touching the rounded start (3 s) and the zero-length one at the rounded end
   (14 s) are returned; limit 2 keeps the two newest *)
Example ex_mem_read :
  mem_read ex_mem 1 (-1) ex_ws ex_we =
    Ok (OEvents [ mkEvent (Some 3) 1600000014000000 0 4; mkEvent (Some 2) 1600000009000000 5000000 3;
                  mkEvent (Some 1) 1600000002000000 1000000 2; mkEvent (Some 0) 1600000000000000 10000000 1 ]) /\
  mem_read ex_mem 1 2 ex_ws ex_we =
    Ok (OEvents [ mkEvent (Some 3) 1600000014000000 0 4; mkEvent (Some 2) 1600000009000000 5000000 3 ]) /\
  mem_readcount ex_mem 1 ex_ws ex_we = Ok (OCount 2).
Proof. vm_compute. repeat split; reflexivity. Qed.

Example ex_float_param_ok : float_param_ok (fun t => t) /\ float_param_ok (fun t => t + 1).
Proof. split; intros t H; lia. Qed.

Example ex_sq_view : exists m es, sq_view ex_sq 1 = Some (m, es) /\ length es = 5%nat /\
  Forall ev_dom es /\ edge_dom ex_ws /\ edge_dom ex_we.
Proof.
  eexists _, _. split; [vm_compute; reflexivity|]. split; [reflexivity|]. split.
  - repeat (constructor; [unfold ev_dom, eend, MAX_TIMESTAMP; cbn [ts dur]; lia|]). constructor.
  - split; intros w E; injection E as <-; lia.
Qed.

(* a parameter that comes out 1 us high drops the event ending exactly at the rounded start *)
Example ex_sq_read :
  sq_read (fun t => t) (fun t => t) ex_sq 1 1 ex_ws ex_we =
    Ok (OEvents [ mkEvent (Some 4) 1600000014000000 0 4 ]) /\
  sq_read (fun t => t + 1) (fun t => t) ex_sq 1 (-1) ex_ws ex_we =
    Ok (OEvents [ mkEvent (Some 4) 1600000014000000 0 4; mkEvent (Some 3) 1600000009000000 5000000 3;
                  mkEvent (Some 1) 1600000000000000 10000000 1 ]).
Proof. vm_compute. split; reflexivity. Qed.

Example ex_sql_end_ok : sql_end_ok sql_end_nearest.
Proof. exact sql_end_ok_nearest. Qed.

Example ex_pw_stored : exists es, pw_stored ex_pw 1 = Some es /\ length es = 5%nat /\
  Forall pw_dom es /\ ordered ex_ws ex_we /\ cache_ok ex_pw 1.
Proof.
  eexists. split; [vm_compute; reflexivity|]. split; [reflexivity|]. split.
  - repeat (constructor; [unfold pw_dom, eend, DAY_US; cbn [ts dur]; lia|]). constructor.
  - split; [intros a z Ea Ez; injection Ea as <-; injection Ez as <-; lia|].
    vm_compute. reflexivity.
Qed.

(* whole-second rounded start: the event that ended 0.4 ms before it passes the TEXT test and
   comes back clamped to duration 0 (id 5); the long event is cut at both ends (id 1); the
   nested one ending exactly at 3 s is cut to a point (id 2) *)
Example ex_pw_read :
  pw_read sql_end_nearest ex_pw 1 (-1) ex_ws ex_we =
    Ok (OEvents [ mkEvent (Some 4) 1600000014000000 0 4; mkEvent (Some 3) 1600000009000000 5000000 3;
                  mkEvent (Some 2) 1600000003000000 0 2; mkEvent (Some 5) 1600000003000000 0 5;
                  mkEvent (Some 1) 1600000003000000 7000000 1 ]).
Proof. vm_compute. reflexivity. Qed.
