(* C03 -- time-window reads.  Statements only; proofs in Proofs/Window*.v. *)
From AwVerif Require Import Base.Prelude Model.StoreBase Model.Window Proofs.WindowRound.

Theorem C03_round_closed : forall ws we,
  bucket_get_round ws we =
  (option_map floor_ms ws, option_map (fun t => floor_ms t + 1000) we).
Proof. exact bucket_get_round_closed. Qed.
Print Assumptions C03_round_closed.
