(* The 4300-digit limit of int.__repr__ / int(str) (sys.get_int_max_str_digits()) at its boundary, evaluated by
   the kernel's virtual machine on the model (Model/Json.v).  A file of its own: coqchk, which has no virtual
   machine, is run on Props/C01Json.v only. *)
From AwVerif Require Import Base.Prelude Model.Json.
Open Scope Z_scope.

(* 4300 digits pass; 4301 digits: json.dumps raises ValueError (int.__repr__), json.loads raises ValueError (int(str)) *)
Theorem C01_json_int_digit_limit :
  dumps (JInt (10 ^ 4299)) = Ok (49 :: repeat 48 4299) /\
  dumps (JList [JInt (10 ^ 4300)]) = Err ValueError /\
  loads (repeat 49 4300) = Ok (JInt ((10 ^ 4300 - 1) / 9)) /\
  loads (repeat 49 4301) = Err ValueError.
Proof. split; [|split; [|split]]; vm_compute; reflexivity. Qed.
Print Assumptions C01_json_int_digit_limit.

