(* C06 at the level of database CONTENTS.  Property statements only.
   Model: Model/CrashStore.v = the commit model of Model/Commit.v composed with the
   relational meaning of every SQL statement of sqlite.py (Model/SqliteStore.v): state
   (durable tables, live tables, num_uncommitted_statements, last_commit); every method
   performs its statements on [live] (the [sql_*] functions) and its commits as in the
   source; [reopen] = what a reopen after a crash finds = [durable].  Proofs:
   Proofs/CrashStoreProofs.v (refinement to Model/Commit.v), Proofs/CrashStoreState.v.

   A history is a list of calls [h : list cop]; [hist_script d0 h] is its micro-step
   sequence when issued on a database holding the tables [d0] (the script of a call
   depends on the tables the connection reads: a call the engine rejects issues nothing);
   a trace is that sequence with the clock readings of every step; a crash point is a
   cut of the trace.  [apply_stmts d0 p] runs the statements [p] from the tables [d0]
   ([d0 = sq_init]: the empty database).  SQLite's atomic commit / loss of exactly the
   open transaction is the oracle (header of Model/CrashStore.v). *)
From AwVerif Require Import Base.Prelude Model.Commit Proofs.CommitProofs.
From AwVerif Require Import Model.StoreBase Model.SqliteStore Model.CrashStore
  Proofs.CrashStoreProofs Proofs.CrashStoreState.

(* Every crash point lies inside (or just before, k = 0) some call [o] issued after the
   completed calls [h].  The reopened tables are the tables obtained by running, from the
   initial tables, a prefix [p] of the statements issued so far (in issue order); the
   connection's own view is the tables after all of them; of the statements of the
   completed calls at most 50 are missing; the missing tail [q] has at most 50 + the
   statements of the call in flight, and at most 50 when no call is in flight. *)
Theorem C06_reopened_is_prefix_state : forall lazy d0 t0 h o tr tro k,
  map fst tr = hist_script d0 h -> map fst tro = sscript (hist_live d0 h) o ->
  let s := cr_run lazy (cr_init d0 t0) (tr ++ firstn k tro) in
  let issued := stmts_of (map fst (tr ++ firstn k tro)) in
  exists p q,
    p ++ q = issued /\
    reopen s = apply_stmts d0 p /\ live s = apply_stmts d0 issued /\
    (length (stmts_of (hist_script d0 h)) <= length p + 50)%nat /\
    (length q <= 50 + length (stmts_of (sscript (hist_live d0 h) o)))%nat /\
    (k = 0%nat -> (length q <= 50)%nat).
Proof. exact reopened_prefix_state. Qed.
Print Assumptions C06_reopened_is_prefix_state.

(* The same for an arbitrary cut of the trace of a whole history: the reopened tables are
   those after a prefix of the history's statements. *)
Theorem C06_prefix_state_any_cut : forall lazy d0 t0 h tr k,
  map fst tr = hist_script d0 h ->
  let s := cr_run lazy (cr_init d0 t0) (firstn k tr) in
  exists p q,
    p ++ q = stmts_of (map fst (firstn k tr)) /\
    prefix (p ++ q) (stmts_of (hist_script d0 h)) /\
    reopen s = apply_stmts d0 p /\ live s = apply_stmts d0 (p ++ q).
Proof. exact prefix_state_any_cut. Qed.
Print Assumptions C06_prefix_state_any_cut.

(* every cut of the trace of a history is a crash point in the sense of
   C06_reopened_is_prefix_state (or lies after the last call) *)
Theorem C06_every_cut_is_inside_a_call : forall d0 h (tr : list (smicro * clk)) k,
  map fst tr = hist_script d0 h ->
  firstn k tr = tr \/
  exists h1 o h2 tr1 tro k',
    h = h1 ++ o :: h2 /\ map fst tr1 = hist_script d0 h1 /\
    map fst tro = sscript (hist_live d0 h1) o /\ firstn k tr = tr1 ++ firstn k' tro.
Proof. exact every_cut_is_inside_a_call. Qed.
Print Assumptions C06_every_cut_is_inside_a_call.

(* No call in flight: at most 50 statements are missing, all of them counted. *)
Theorem C06_reopened_is_prefix_state_quiescent : forall lazy d0 t0 h tr,
  map fst tr = hist_script d0 h ->
  let s := cr_run lazy (cr_init d0 t0) tr in
  exists p q,
    p ++ q = stmts_of (hist_script d0 h) /\
    reopen s = apply_stmts d0 p /\ live s = hist_live d0 h /\
    (length q <= 50)%nat /\ Z.of_nat (length q) <= cr_n s <= 50.
Proof. exact reopened_prefix_state_quiescent. Qed.
Print Assumptions C06_reopened_is_prefix_state_quiescent.

(* The prefix never ends inside a single-event or bucket-level call: wherever the crash
   falls, the reopened tables are those after a prefix [p] of the statements that stops
   before the call's statements or includes them all. *)
Theorem C06_no_split : forall lazy d0 t0 h o rest tr k,
  cr_atomic_op o -> map fst tr = hist_script d0 (h ++ o :: rest) ->
  let s := cr_run lazy (cr_init d0 t0) (firstn k tr) in
  let before := stmts_of (hist_script d0 h) in
  let own := stmts_of (sscript (hist_live d0 h) o) in
  exists p,
    prefix p (stmts_of (hist_script d0 (h ++ o :: rest))) /\ reopen s = apply_stmts d0 p /\
    (prefix p before \/ prefix (before ++ own) p).
Proof. exact no_split_state. Qed.
Print Assumptions C06_no_split.

Theorem C06_single_event_one_statement : forall c o,
  cr_single_event_op o -> sscript c o = [] \/ exists q, stmts_of (sscript c o) = [q].
Proof. exact single_event_one_stmt. Qed.
Print Assumptions C06_single_event_one_statement.

(* In terms of CALLS: the reopened tables are the tables the store model has after some
   prefix [h1] of the calls - except when the durable prefix of statements ends inside an
   insert_many ([cr_bulk_op]: the only calls that issue several statements with
   conditional_commits in between, or one executemany counted afterwards); then a proper
   part [p'] of that call's statements is applied on top. *)
Theorem C06_reopened_is_call_prefix : forall lazy d0 t0 h tr k,
  map fst tr = hist_script d0 h ->
  let s := cr_run lazy (cr_init d0 t0) (firstn k tr) in
  exists h1 rest p',
    h = h1 ++ rest /\ reopen s = apply_stmts (hist_live d0 h1) p' /\
    (p' = [] \/
     exists o h2, rest = o :: h2 /\ cr_bulk_op o /\
                  prefix p' (stmts_of (sscript (hist_live d0 h1) o)) /\
                  (0 < length p' < length (stmts_of (sscript (hist_live d0 h1) o)))%nat).
Proof. exact reopened_is_call_prefix. Qed.
Print Assumptions C06_reopened_is_call_prefix.

(* Without insert_many, in the vocabulary of Model/SqliteStore.v: after a crash at any
   point the reopened tables are [sq_run d0] of a prefix of the history - a state the
   store model passes through, so every invariant proved of [sq_run] in C02/C04/C05
   (no orphan rows, unique ids, ...) holds of the reopened database. *)
Theorem C06_reopened_is_store_state : forall lazy d0 t0 hs tr k,
  map fst tr = hist_script d0 (map Std hs) -> Forall not_insert_many hs ->
  exists n, reopen (cr_run lazy (cr_init d0 t0) (firstn k tr)) = sq_run d0 (firstn n hs).
Proof. exact reopened_is_store_state. Qed.
Print Assumptions C06_reopened_is_store_state.

(* create_bucket / update_bucket / delete_bucket, from ANY state: when the call has issued
   its statement(s) (i.e. it is not a create_bucket of an existing id or an update_bucket
   without fields, which raise before writing), at its return a reopen finds exactly what
   the connection itself reads: the call's effect and everything buffered before it. *)
Theorem C06_bucket_ops_durable_state : forall lazy s o tro,
  cr_bucket_op o -> map fst tro = sscript (live s) o -> sscript (live s) o <> [] ->
  let s' := cr_run lazy s tro in
  reopen s' = live s' /\ live s' = cop_live (live s) o /\ cr_n s' = 0.
Proof. exact bucket_ops_durable_state. Qed.
Print Assumptions C06_bucket_ops_durable_state.

(* The eager store (enable_lazy_commit = False): every completed call is durable - after
   any history a reopen finds exactly what the connection reads, and so after every call
   issued in such a state. *)
Theorem C06_eager_store_completed_durable : forall d0 t0 h tr,
  map fst tr = hist_script d0 h ->
  let s := cr_run false (cr_init d0 t0) tr in
  reopen s = live s /\ live s = hist_live d0 h.
Proof. exact eager_history_durable. Qed.
Print Assumptions C06_eager_store_completed_durable.

Theorem C06_eager_store_call_durable : forall s o tro,
  durable s = live s -> map fst tro = sscript (live s) o ->
  reopen (cr_run false s tro) = live (cr_run false s tro).
Proof. exact eager_call_durable. Qed.
Print Assumptions C06_eager_store_call_durable.

(* What the process itself observes is the store model of Model/SqliteStore.v: a call
   moves the connection's view exactly as [sq_step] and returns what [sq_step] returns,
   whatever the commit bookkeeping does - so the theorems of Props/C02.v, C04.v, C05.v
   about [sq_step] / [sq_run] speak about the live view of this model. *)
Theorem C06_live_view_is_store_model : forall lazy s o tro,
  map fst tro = sscript (live s) (Std o) ->
  live (cr_run lazy s tro) = fst (sq_step (live s) o) /\
  cop_out (live s) (Std o) = snd (sq_step (live s) o).
Proof. exact live_view_call. Qed.
Print Assumptions C06_live_view_is_store_model.

Theorem C06_live_view_history : forall lazy d0 t0 h tr,
  map fst tr = hist_script d0 (map Std h) ->
  live (cr_run lazy (cr_init d0 t0) tr) = sq_run d0 h.
Proof. exact live_view_history. Qed.
Print Assumptions C06_live_view_history.

(* a bulk insert that raises at bind time on row k leaves, in the connection's view, what
   an insert_many of the upserts and of the k rows before it leaves *)
Theorem C06_live_view_bulk_overflow : forall c b es k,
  cop_live c (BulkOverflow b es k)
  = fst (sq_step c (InsertMany b (filter (fun e => negb (no_id e)) es ++ firstn k (filter no_id es)))).
Proof. exact cop_live_overflow. Qed.
Print Assumptions C06_live_view_bulk_overflow.

(* an insert_many whose upsert loop raises at bind time on id-carrying event k leaves, in
   the connection's view, what an insert_many of the k id-carrying events before it leaves
   (no row of the batch is inserted); the call raises *)
Theorem C06_live_view_upsert_overflow : forall c b es k,
  cop_live c (UpsertOverflow b es k) = fst (sq_step c (InsertMany b (firstn k (with_id es)))) /\
  cop_out c (UpsertOverflow b es k) = Err OtherError.
Proof. exact cop_live_upsert_overflow. Qed.
Print Assumptions C06_live_view_upsert_overflow.

(* Refinement: forgetting the contents of the statements (any naming [tokf] of statements
   by tokens) turns a run of this model into the run of Model/Commit.v on the projected
   trace - the projected trace is a trace of the projected history ([Commit.expand]), the
   bookkeeping fields coincide at every cut, and the token lists [committed] / [pending]
   name two statement lists [cl] / [pl] with durable = tables after [cl], live = tables
   after [cl ++ pl] = everything issued.  So the two models cannot drift apart. *)
Theorem C06_state_refines_commit_model : forall tokf lazy d0 t0 h tr k,
  map fst tr = hist_script d0 h ->
  let ss := cr_run lazy (cr_init d0 t0) (firstn k tr) in
  let cs := run lazy (init [] t0) (firstn k (forget_tr tokf tr)) in
  map fst (forget_tr tokf tr) = expand_all (forget_hist tokf d0 h) /\
  exists cl pl,
    cl ++ pl = stmts_of (map fst (firstn k tr)) /\
    committed cs = map tokf cl /\ pending cs = map tokf pl /\
    durable ss = apply_stmts d0 cl /\ live ss = apply_stmts d0 (cl ++ pl) /\
    cr_n ss = n_unc cs /\ cr_last ss = last_commit cs.
Proof. exact refines_commit_model. Qed.
Print Assumptions C06_state_refines_commit_model.

(* the token script of every call is the projection of its statement script *)
Theorem C06_script_projection : forall tokf c o,
  map (forget_micro tokf) (sscript c o) = expand (forget_op tokf c o).
Proof. exact forget_script. Qed.
Print Assumptions C06_script_projection.

(* the driver (Model/CrashStoreDriver.v) runs an executemany row by row: same state *)
Theorem C06_executemany_row_by_row : forall lazy s qs c cs,
  length cs = length qs ->
  cr_run lazy s (combine (map SExec qs) cs) = cr_step lazy s (SExecMany qs, c).
Proof. exact cr_run_flatten. Qed.
Print Assumptions C06_executemany_row_by_row.

(* ... and a crash between two rows of it finds what a crash before it finds *)
Theorem C06_crash_inside_executemany : forall lazy qs s cs j,
  reopen (cr_run lazy s (firstn j (combine (map SExec qs) cs))) = reopen s.
Proof. exact exec_rows_keep_durable. Qed.
Print Assumptions C06_crash_inside_executemany.

(* ---- non-vacuity ---- *)

Definition ex_meta : meta := mkMeta 1 2 3 4 None 0.
Definition ex_ev (i : Z) : event := mkEvent None (1000000 * i) 1000000 i.
Definition ex_inserts (n : nat) : list cop :=
  map (fun i => Std (InsertOne 7 (ex_ev (Z.of_nat i)))) (seq 1 n).
Definition ex_timed (ms : list smicro) : list (smicro * clk) := map (fun m => (m, mkClk 0 0 0)) ms.
Definition ex_state (h : list cop) : crstate :=
  cr_run true (cr_init sq_init 0) (ex_timed (hist_script sq_init h)).
Definition ex_sizes (c : sqstate) : nat * nat := (length (sq_buckets c), length (sq_events c)).

(* 50 buffered inserts: the connection reads 50 events, a reopen finds the bucket and no
   event; the 51st flushes; a delete_bucket cut between its two statements and before its
   commit leaves everything in place for a reopen (the connection already reads no event,
   then no bucket); after it returns the reopen finds the empty tables. *)
Example C06_state_nonvacuous :
  let h50 := Std (CreateBucket 7 ex_meta) :: ex_inserts 50 in
  let h51 := Std (CreateBucket 7 ex_meta) :: ex_inserts 51 in
  let hdel := h51 ++ [Std (DeleteBucket 7)] in
  let cut k := cr_run true (cr_init sq_init 0) (firstn k (ex_timed (hist_script sq_init hdel))) in
  (ex_sizes (reopen (ex_state h50)), ex_sizes (live (ex_state h50))) = ((1, 0), (1, 50))%nat /\
  (ex_sizes (reopen (ex_state h51)), ex_sizes (live (ex_state h51))) = ((1, 51), (1, 51))%nat /\
  length (hist_script sq_init hdel) = 108%nat /\
  (ex_sizes (reopen (cut 106%nat)), ex_sizes (live (cut 106%nat))) = ((1, 51), (1, 0))%nat /\
  (ex_sizes (reopen (cut 107%nat)), ex_sizes (live (cut 107%nat))) = ((1, 51), (0, 0))%nat /\
  (ex_sizes (reopen (cut 108%nat)), ex_sizes (live (cut 108%nat))) = ((0, 0), (0, 0))%nat.
Proof. vm_compute. repeat split; reflexivity. Qed.

(* calls the engine rejects issue nothing, and the model decides it from the live view:
   a second create_bucket of the same id, an insert into an unknown bucket, an
   update_bucket without fields; an insert_many into an unknown bucket still counts *)
Example C06_state_rejected_calls :
  let c1 := hist_live sq_init [Std (CreateBucket 7 ex_meta)] in
  sscript c1 (Std (CreateBucket 7 ex_meta)) = [] /\
  sscript c1 (Std (InsertOne 8 (ex_ev 1))) = [] /\
  sscript c1 (Std (UpdateBucket 7 None None None None None)) = [] /\
  sscript c1 (Std (InsertMany 8 [ex_ev 1; ex_ev 2])) = [SExecMany []; SCondCommit 2] /\
  sscript c1 (BulkOverflow 7 [ex_ev 1; ex_ev 2] 1) = [SExecMany [QInsertEvent 7 (ex_ev 1)]; SCondCommit 3].
Proof. vm_compute. repeat split; reflexivity. Qed.

(* an insert_many of two id-carrying events and one row whose SECOND id-carrying event (a
   third one, not listed) overflows at bind time: one UPDATE has run, no bulk statement, the
   finally clause counts 3 + 1; in the token model it is InsertManyFailed [u] [] 3; with 48
   statements buffered before it the call flushes (48 + 4 > 50) and the UPDATE that ran is
   durable when the exception reaches the caller *)
Example C06_state_upsert_overflow :
  let e1 := mkEvent (Some 1) 5000000 1000000 9 in
  let e2 := mkEvent (Some 2) 6000000 1000000 9 in
  let call := UpsertOverflow 7 [e1; e2; ex_ev 3] 1 in
  let h := Std (CreateBucket 7 ex_meta) :: ex_inserts 48 in
  let c := hist_live sq_init h in
  sscript c call = [SExec (QUpdateEvent 7 1 e1); SExecMany []; SCondCommit 4] /\
  forget_op tok0 c call = Commit.InsertManyFailed [0] [] 3 /\
  cop_out c call = Err OtherError /\
  cr_n (ex_state h) = 48 /\ ex_sizes (reopen (ex_state h)) = (1, 0)%nat /\
  cr_n (ex_state (h ++ [call])) = 0 /\
  map er_data (firstn 2 (sq_events (reopen (ex_state (h ++ [call]))))) = [9; 2] /\
  reopen (ex_state (h ++ [call])) = live (ex_state (h ++ [call])).
Proof. vm_compute. repeat split; reflexivity. Qed.

(* replace / delete act on the reopened tables only once flushed: the cells differ *)
Example C06_state_cells :
  let h := [Std (CreateBucket 7 ex_meta); Std (InsertOne 7 (ex_ev 1)); Std (GetEventCount 7 None None);
            Std (Replace 7 1 (ex_ev 9)); Std (InsertOne 7 (ex_ev 2)); Std (Delete 7 2)] in
  map er_data (sq_events (reopen (ex_state h))) = [1] /\
  map er_data (sq_events (live (ex_state h))) = [9] /\
  sq_seq_e (reopen (ex_state h)) = 1 /\ sq_seq_e (live (ex_state h)) = 2.
Proof. vm_compute. repeat split; reflexivity. Qed.

(* Sensitivity: were the commit of delete_bucket moved between its two statements (a
   script that is NOT [sscript]), a crash after that commit would find the bucket row
   without any of its 51 events - the tables after a prefix that ends inside the call. *)
Example C06_state_split_sensitivity :
  let h51 := Std (CreateBucket 7 ex_meta) :: ex_inserts 51 in
  let moved := [SExec (QDeleteEventsOf 7); SCommit; SExec (QDeleteBucket 7)] in
  ex_sizes (reopen (cr_run true (ex_state h51) (ex_timed (firstn 2 moved)))) = (1, 0)%nat /\
  ex_sizes (reopen (cr_run true (ex_state h51) (ex_timed (sscript (live (ex_state h51)) (Std (DeleteBucket 7))))))
    = (0, 0)%nat.
Proof. vm_compute. split; reflexivity. Qed.
