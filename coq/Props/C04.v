(* C04 — operations addressed to one bucket never change any other bucket.
   Property statements only.  Models: Model/{Mem,Sqlite,Peewee}Store.v (every method of the
   AbstractStorage interface); proofs: Proofs/Store{Mem,Sqlite,Peewee}Proofs.v.
   `X_view c b'` = metadata and events (with ids, storage order) of bucket b' as read back;
   `target op` = the bucket the operation addresses; `fst (X_step c op)` = the state the call
   leaves behind, whether it returned or raised.  No side condition on the operation or its
   arguments: foreign ids, dead ids, missing buckets, any instants. *)
From AwVerif Require Import Base.Prelude Model.StoreBase Model.MemStore Model.SqliteStore
  Model.PeeweeStore Proofs.StoreMemProofs Proofs.StoreSqliteProofs Proofs.StorePeeweeProofs.

(* --- the representation invariants hold initially and are preserved by every op --- *)
Theorem C04_inv_init_mem : mem_Inv mem_init.
Proof. exact mem_Inv_init. Qed.
Print Assumptions C04_inv_init_mem.

Theorem C04_inv_step_mem : forall c op, mem_Inv c -> mem_Inv (fst (mem_step c op)).
Proof. exact mem_step_Inv. Qed.
Print Assumptions C04_inv_step_mem.

Theorem C04_inv_init_sqlite : sq_Inv sq_init.
Proof. exact sq_Inv_init. Qed.
Print Assumptions C04_inv_init_sqlite.

Theorem C04_inv_step_sqlite : forall c op, sq_Inv c -> sq_Inv (fst (sq_step c op)).
Proof. exact sq_step_Inv. Qed.
Print Assumptions C04_inv_step_sqlite.

Theorem C04_inv_init_peewee : pw_Inv pw_init.
Proof. exact pw_Inv_init. Qed.
Print Assumptions C04_inv_init_peewee.

Theorem C04_inv_step_peewee : forall c op, pw_Inv c -> pw_Inv (fst (pw_step c op)).
Proof. exact pw_step_Inv. Qed.
Print Assumptions C04_inv_step_peewee.

(* --- the frame theorems: every op, every argument --- *)
Theorem C04_frame_mem : forall c op b',
  mem_Inv c -> target op <> Some b' -> mem_view (fst (mem_step c op)) b' = mem_view c b'.
Proof. exact mem_frame. Qed.
Print Assumptions C04_frame_mem.

Theorem C04_frame_sqlite : forall c op b',
  sq_Inv c -> target op <> Some b' -> sq_view (fst (sq_step c op)) b' = sq_view c b'.
Proof. exact sq_frame. Qed.
Print Assumptions C04_frame_sqlite.

Theorem C04_frame_peewee : forall c op b',
  pw_Inv c -> target op <> Some b' -> pw_view (fst (pw_step c op)) b' = pw_view c b'.
Proof. exact pw_frame. Qed.
Print Assumptions C04_frame_peewee.

(* --- the same without mentioning the invariant: after ANY history from the empty store --- *)
Theorem C04_frame_mem_reachable : forall h op b',
  target op <> Some b' ->
  mem_view (fst (mem_step (mem_run mem_init h) op)) b' = mem_view (mem_run mem_init h) b'.
Proof. exact mem_frame_reachable. Qed.
Print Assumptions C04_frame_mem_reachable.

Theorem C04_frame_sqlite_reachable : forall h op b',
  target op <> Some b' ->
  sq_view (fst (sq_step (sq_run sq_init h) op)) b' = sq_view (sq_run sq_init h) b'.
Proof. exact sq_frame_reachable. Qed.
Print Assumptions C04_frame_sqlite_reachable.

Theorem C04_frame_peewee_reachable : forall h op b',
  target op <> Some b' ->
  pw_view (fst (pw_step (pw_run pw_init h) op)) b' = pw_view (pw_run pw_init h) b'.
Proof. exact pw_frame_reachable. Qed.
Print Assumptions C04_frame_peewee_reachable.

(* Non-vacuity: two populated buckets; the id of bucket 1's event is passed to replace,
   delete, insert_one and a bulk upsert addressed to bucket 2.  Bucket 1 reads back as
   before on every model, while bucket 2 itself does change (the insert part of the bulk
   call), and on peewee the foreign id is rejected with AttributeError. *)
Example C04_nonvacuous :
  let m := mkMeta 1 1 1 0 None 0 in
  let h := [CreateBucket 1 m; CreateBucket 2 m; InsertOne 1 (mkEvent None 0 1 1); InsertOne 2 (mkEvent None 0 1 2)] in
  let x := mkEvent None 3 1 9 in
  let bulk i := InsertMany 2 [x; mkEvent (Some i) 3 1 9] in
  (sq_view (sq_run sq_init h) 1 = Some (m, [mkEvent (Some 1) 0 1 1]) /\
   sq_view (fst (sq_step (sq_run sq_init h) (Replace 2 1 x))) 1 = sq_view (sq_run sq_init h) 1 /\
   sq_view (fst (sq_step (sq_run sq_init h) (bulk 1))) 1 = sq_view (sq_run sq_init h) 1 /\
   sq_view (fst (sq_step (sq_run sq_init h) (bulk 1))) 2 <> sq_view (sq_run sq_init h) 2) /\
  (pw_view (fst (pw_step (pw_run pw_init h) (InsertOne 2 (mkEvent (Some 1) 3 1 9)))) 1
     = Some (m, [mkEvent (Some 1) 0 1 1]) /\
   snd (pw_step (pw_run pw_init h) (InsertOne 2 (mkEvent (Some 1) 3 1 9))) = Err AttributeError) /\
  (mem_view (fst (mem_step (mem_run mem_init h) (Delete 2 0))) 1
     = Some (mkMeta 1 1 1 0 (Some 1) 0, [mkEvent (Some 0) 0 1 1]) /\
   mem_view (fst (mem_step (mem_run mem_init h) (Delete 2 0))) 2 = Some (mkMeta 1 1 1 0 (Some 2) 0, [])).
Proof. vm_compute. repeat split; try reflexivity. discriminate. Qed.
