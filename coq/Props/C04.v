(* C04 — operations on one bucket never change another.  (theorems are added as they are
   proved; see notes/agents/C04.md) *)
From AwVerif Require Import Base.Prelude Model.StoreBase Model.MemStore Model.SqliteStore
  Model.PeeweeStore.

(* Non-vacuity: a replace addressed to bucket 2 with the id of bucket 1's event. *)
Example C04_nonvacuous_sqlite :
  let m := mkMeta 1 1 1 0 None 0 in
  let c := sq_run sq_init [CreateBucket 1 m; CreateBucket 2 m; InsertOne 1 (mkEvent None 0 1 1)] in
  sq_view (fst (sq_step c (Replace 2 1 (mkEvent None 3 1 9)))) 1 = sq_view c 1 /\
  sq_view c 1 = Some (m, [mkEvent (Some 1) 0 1 1]).
Proof. vm_compute. split; reflexivity. Qed.
