(* C19, round 3: what categorize / tag CREATE is handed to one event only.

   Statements only; each theorem is closed by [exact <lemma>] and followed by Print Assumptions.
   Model: Model/ClassifyHeap.v (unchanged).  Proofs: Proofs/ClassifyHeapFresh.v.
   Tie to the code: harness/theap2.py (sharing graph of one call) and harness/c19_hist.py
   (isolation_check: every container a call handed out is edited in place, one at a time; later
   calls in the same process).

   unshared_since n0 h   every object created since the heap had n0 cells (index >= n0) is a
                         member of at most one object of h.
   Props/C19own.v says WHICH cells are written and that a stored member is a caller's object
   or a cell allocated by the call; it is silent on whether two events get two different new
   cells (a single ["Uncategorized"] list handed to every event satisfies it).  These
   theorems close that: for every engine, heap, argument list and rule list - also when the
   call raises midway - the ["Uncategorized"] lists, the $tags lists and the returned list
   are each referred to by one object only; the rules' own category lists (objects of the
   caller, index < length h) are the only thing two results may share. *)
From AwVerif Require Import Base.Prelude Model.MemHeap Model.TransformHeap Model.DictHeap
  Model.ClassifyBase Model.Classify Model.ClassifyHeap
  Proofs.MemHeapBase Proofs.TransformHeapBase Proofs.DictHeapBase Proofs.ClassifyHeapFrame
  Proofs.ClassifyHeapFresh.
From Coq Require Import Arith Lia.
Local Open Scope nat_scope.
Local Notation lookup := MemHeap.lookup.

Theorem C19_categorize_creates_unshared : forall re h L classes h' r,
  closed h -> (forall c, In c (map fst classes) -> c < length h) ->
  categorize_h re h L classes = (h', r) ->
  closed h' /\ length h <= length h' /\ unshared_since (length h) h'.
Proof. exact categorize_h_fresh. Qed.
Print Assumptions C19_categorize_creates_unshared.

Theorem C19_tag_creates_unshared : forall re h L classes h' r,
  closed h -> tag_h re h L classes = (h', r) ->
  closed h' /\ length h <= length h' /\ unshared_since (length h) h'.
Proof. exact tag_h_fresh. Qed.
Print Assumptions C19_tag_creates_unshared.

(* read through the dicts: if two different dict objects hold the same object (under any keys,
   $category included), it is an object that existed before the call *)
Theorem C19_new_object_in_one_dict : forall n0 h d1 d2 z1 z2 k1 k2 c,
  unshared_since n0 h -> d1 <> d2 -> rd_dict h d1 = Ok z1 -> rd_dict h d2 = Ok z2 ->
  zget k1 z1 = Some (ZK c) -> zget k2 z2 = Some (ZK c) -> c < n0.
Proof. exact unshared_dicts. Qed.
Print Assumptions C19_new_object_in_one_dict.

(* the consumer edits a new object c in place: every other cell is as it was, and at most one
   cell refers to c *)
Theorem C19_edit_of_new_object_one_reader : forall n0 h c cell',
  unshared_since n0 h -> n0 <= c ->
  (forall l, l <> c -> lookup (update h c cell') l = lookup h l) /\
  (forall l1 l2 c1 c2, lookup h l1 = Some c1 -> lookup h l2 = Some c2 ->
     In c (children c1) -> In c (children c2) -> l1 = l2).
Proof. exact edit_new_cell_one_reader. Qed.
Print Assumptions C19_edit_of_new_object_one_reader.

(* ---- Non-vacuity ----
   exf: two events that no rule matches, the argument list at 4. *)
Definition exf : heap :=
  [ dict_cell [(K_title, ZS 10)];
    Cell (TEv None 1000 2000) [0];
    dict_cell [(K_title, ZS 12)];
    Cell (TEv None 5000 1000) [2];
    Cell (TNode EVENT_LIST) [1; 3] ].
Definition re_none (p : Z) (ic : bool) (s : Z) : bool := false.

Lemma exf_closed : closed exf.
Proof.
  intros l c k L I.
  do 5 (destruct l as [|l]; [inversion L; subst c; cbn in I; cbn; intuition lia|]).
  destruct l; discriminate.
Qed.

(* the two events get two different new lists (5 and 6), the returned list is 7 *)
Example C19fresh_nonvacuous :
  closed exf /\
  exists h', categorize_h re_none exf 4 [] = (h', Ok 7) /\
    (exists p, lookup h' 0 = Some (Cell (TNode p) [5])) /\
    (exists p, lookup h' 2 = Some (Cell (TNode p) [6])) /\
    lookup h' 5 = Some (Cell (TNode (lenc [S_uncategorized])) []) /\
    lookup h' 6 = Some (Cell (TNode (lenc [S_uncategorized])) []) /\
    unshared_since 5 h'.
Proof.
  split; [exact exf_closed|].
  eexists. split; [vm_compute; reflexivity|].
  split; [eexists; vm_compute; reflexivity|]. split; [eexists; vm_compute; reflexivity|].
  split; [vm_compute; reflexivity|]. split; [vm_compute; reflexivity|].
  pose proof (C19_categorize_creates_unshared re_none exf 4 [] _ _ exf_closed
                (fun c (I : In c (map fst (@nil (loc * rule)))) => match I with end) eq_refl) as (_ & _ & U).
  exact U.
Qed.

(* the statement has teeth: one new list object handed to two events (what a hoisted
   module-level ["Uncategorized"] does within a call) is excluded *)
Definition shared_bad : heap :=
  [ dict_cell [(K_category, ZK 2)]; dict_cell [(K_category, ZK 2)];
    Cell (TNode (lenc [S_uncategorized])) [] ].
Example C19fresh_excludes_one_list_for_all : ~ unshared_since 2 shared_bad.
Proof.
  intro U.
  assert (2 < 2) as A; [|lia].
  apply (U 0 1 (dict_cell [(K_category, ZK 2)]) (dict_cell [(K_category, ZK 2)]) 2); try reflexivity; try discriminate;
    cbn; auto.
Qed.
